/-
Model of xsrftoken/xsrf.go. Strings are byte lists (`List Nat`, bytes < 256);
times are `Int` nanoseconds since the Unix epoch (`time.Unix(0, ns)`), durations
`Int` nanoseconds. The MAC (`base64(HMAC-SHA1(key, msg))` in the Go code) is a
PARAMETER `mac : key → msg → text` of the model: the theorems hold for every
function; the driver instantiates it with a concrete HMAC-SHA1 (Model/HmacSha1).

int64 effects that are reachable with in-range arguments are modelled exactly:
`wrap64` (two's-complement wrap of `millis*1e6` and `ns+1e6-1`), Go's truncating
division (`Int.tdiv`), and the saturation of `Time.Sub`.
`none` = the Go panic "zero length xsrf secret key".
-/
namespace NetVerif.Model.Xsrf

abbrev Bytes := List Nat

def colon : Nat := 58       -- ':'
def underscore : Nat := 95  -- '_'
def letterC : Nat := 99     -- 'c'

/-- `strings.ReplaceAll(s, "_", "__")`. -/
def replaceUnderscore (s : Bytes) : Bytes := s.flatMap (fun c => if c = 95 then [95, 95] else [c])
/-- `strings.ReplaceAll(s, ":", "_c")`. -/
def replaceColon (s : Bytes) : Bytes := s.flatMap (fun c => if c = 58 then [95, 99] else [c])
/-- `clean`. -/
def clean (s : Bytes) : Bytes := replaceColon (replaceUnderscore s)

/-- little-endian decimal digits (ASCII), `fuel` digits at most. -/
def digitsRev : Nat → Nat → Bytes
  | 0, _ => []
  | f + 1, n => (48 + n % 10) :: (if n < 10 then [] else digitsRev f (n / 10))

/-- `%d` of a natural number below 10^20. -/
def decNat (n : Nat) : Bytes := (digitsRev 20 n).reverse

/-- `%d` of an int64. -/
def decInt (i : Int) : Bytes := if i < 0 then 45 :: decNat i.natAbs else decNat i.natAbs

/-- value of little-endian ASCII digits. -/
def valRev : Bytes → Nat
  | [] => 0
  | d :: r => (d - 48) + 10 * valRev r

def isDigit (c : Nat) : Bool := decide (48 ≤ c ∧ c ≤ 57)

/-- `strconv.ParseInt(s, 10, 64)`; `none` = any error (syntax or range). -/
def parseInt64 (s : Bytes) : Option Int :=
  match s with
  | [] => none
  | c :: r =>
    let neg := decide (c = 45)
    let ds := if c = 43 ∨ c = 45 then r else s
    if ds.isEmpty ∨ ¬ ds.all isDigit then none
    else
      let v := valRev ds.reverse
      if neg then (if v ≤ 9223372036854775808 then some (-(v : Int)) else none)
      else (if v < 9223372036854775808 then some (v : Int) else none)

/-- `strings.LastIndex(token, ":")` as a split: (before, after) the last ':'. -/
def splitLast : Bytes → Option (Bytes × Bytes)
  | [] => none
  | c :: rest =>
    match splitLast rest with
    | some (p, s) => some (c :: p, s)
    | none => if c = 58 then some ([], rest) else none

/-- int64 wrap-around. -/
def wrap64 (x : Int) : Int := (x + 9223372036854775808) % 18446744073709551616 - 9223372036854775808

/-- `t.Sub(u)` for times given as int64 nanoseconds: saturating difference. -/
def satSub (t u : Int) : Int :=
  let d := t - u
  if d > 9223372036854775807 then 9223372036854775807
  else if d < -9223372036854775808 then -9223372036854775808
  else d

/-- `milliTime := (now.UnixNano() + 1e6 - 1) / 1e6`. -/
def milliTime (nowNs : Int) : Int := Int.tdiv (wrap64 (nowNs + 999999)) 1000000

/-- The MAC input `fmt.Fprintf(h, "%s:%s:%d", clean(userID), clean(actionID), milliTime)`. -/
def macInput (user action : Bytes) (milli : Int) : Bytes :=
  clean user ++ 58 :: (clean action ++ 58 :: decInt milli)

/-- `generateTokenAtTime`, the non-panicking part. -/
def tokenAt (mac : Bytes → Bytes → Bytes) (key user action : Bytes) (nowNs : Int) : Bytes :=
  let m := milliTime nowNs
  mac key (macInput user action m) ++ 58 :: decInt m

/-- `generateTokenAtTime(key, userID, actionID, time.Unix(0, nowNs))`. -/
def generateWith (mac : Bytes → Bytes → Bytes) (key user action : Bytes) (nowNs : Int) : Option Bytes :=
  if key.isEmpty then none else some (tokenAt mac key user action nowNs)

def graceNs : Int := 60000000000           -- 1 * time.Minute
def defaultTimeoutNs : Int := 86400000000000  -- Timeout = 24 * time.Hour

/-- `validTokenAtTime`, the non-panicking part. -/
def checkAt (mac : Bytes → Bytes → Bytes) (token key user action : Bytes) (nowNs timeout : Int) : Bool :=
  match splitLast token with
  | none => false
  | some (_, suffix) =>
    match parseInt64 suffix with
    | none => false
    | some millis =>
      let issue := wrap64 (millis * 1000000)
      if satSub nowNs issue ≥ timeout then false
      else if issue > nowNs + 60000000000 then false
      else decide (token = tokenAt mac key user action issue)

/-- `validTokenAtTime(token, key, userID, actionID, time.Unix(0, nowNs), timeout)`. -/
def validWith (mac : Bytes → Bytes → Bytes) (token key user action : Bytes) (nowNs timeout : Int) : Option Bool :=
  if key.isEmpty then none else some (checkAt mac token key user action nowNs timeout)

end NetVerif.Model.Xsrf
