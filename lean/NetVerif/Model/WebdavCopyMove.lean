import NetVerif.Model.FS
/-
Model of `Handler.handleCopyMove` (webdav/webdav.go) composed with `copyFiles`
and `moveFiles` (webdav/file.go) over the `memFS` model `FS.Mem`.

Raw paths (`r.URL.Path`, the path of the parsed `Destination` URL, `Handler.Prefix`)
are byte strings; the handler compares and strips them textually and hands them to
the FileSystem, which cleans them (`FS.clean` = `slashClean`).  `copyFiles` builds
child names with `path.Join`, which for a child name read from the directory is
"append one component" on the cleaned path; the model recurses on cleaned paths.

The lock check (`confirmLocks`) is a parameter `gate`: it sees the method and the raw
source and destination and either lets the request through (`none`) or answers
with a status.  The theorems hold for every gate; the driver instantiates it with a
model of `memLS` without expiry (`memGate`).

Not modelled: URL parsing (the harness supplies the decoded path and the host class),
dead properties, permission bits, the XML multistatus body (never produced here).
-/
namespace NetVerif.Model.WebdavCopyMove
open NetVerif.Model.FS

/-- `copyFiles` result is "no error" exactly for 201/204. -/
def okStatus (s : Nat) : Bool := s == 201 || s == 204

/-- The `for _, c := range children` loop of `copyFiles`: stop at the first error. -/
def copyKids (step : Tree → Name → Tree × Nat) : Tree → List Name → Tree × Option Nat
  | t, [] => (t, none)
  | t, c :: cs =>
    let r := step t c
    if okStatus r.2 then copyKids step r.1 cs else (r.1, some r.2)

/-- The `Stat(dst)` / `RemoveAll(dst)` prologue of `copyFiles`: the tree after it and
whether the destination is being created, or the error status. -/
def copyPre (t : Tree) (d : Path) (ow : Bool) : Except Nat (Tree × Bool) :=
  match Mem.stat t d with
  | .error e => if e = .notExist then .ok (t, true) else .error 403
  | .ok _ =>
    if !ow then .error 412
    else match Mem.removeAll t d with
      | .error e => if e = .notExist then .ok (t, false) else .error 403
      | .ok t1 => .ok (t1, false)

/-- The non-collection branch of `copyFiles`: `OpenFile(dst, O_RDWR|O_CREATE|O_TRUNC)`,
`io.Copy`, `Close`. -/
def copyFileTo (t1 : Tree) (d : Path) (srcData : List Nat) (done : Nat) : Tree × Nat :=
  match Mem.openFile t1 d Mem.rdwrCreateTrunc with
  | .error e => (t1, if e = .notExist then 409 else 403)
  | .ok (t2, dstInfo) =>
    if srcData.isEmpty then (t2, done)            -- io.Copy makes no Write call
    else if dstInfo.isDir then (t2, 500)          -- memFile.Write on a directory: ErrInvalid
    else (setEntry t2 d (.file srcData), done)

/-- Contents readable through a handle opened on `s` (empty for a directory). The handle
survives a `RemoveAll` of its node, so the contents are those at open time. -/
def dataAt (t : Tree) (s : Path) : List Nat :=
  match get t s with
  | some (.file data) => data
  | _ => []

/-- `copyFiles(ctx, fs, src, dst, overwrite, depth, recursion)` with
`fuel = 1000 - recursion`; `inf` is `depth == infiniteDepth`. -/
def copyFiles : Nat → Tree → Path → Path → Bool → Bool → Tree × Nat
  | 0, t, _, _, _, _ => (t, 500)
  | fuel + 1, t, s, d, ow, inf =>
    match Mem.openFile t s Mem.rdonly with
    | .error e => (t, if e = .notExist then 404 else 500)
    | .ok (_, src) =>
      match copyPre t d ow with
      | .error st => (t, st)
      | .ok (t1, created) =>
        let done : Nat := if created then 201 else 204
        if src.isDir then
          match Mem.mkdir t1 d with
          | .error _ => (t1, 403)
          | .ok t2 =>
            if inf then
              match copyKids (fun t' c => copyFiles fuel t' (s ++ [c]) (d ++ [c]) ow inf) t2 src.kids with
              | (t3, some st) => (t3, st)
              | (t3, none) => (t3, done)
            else (t2, done)
        else copyFileTo t1 d (dataAt t s) done

/-- The `Stat(dst)` / `RemoveAll(dst)` prologue of `moveFiles`. -/
def movePre (t : Tree) (d : Path) (ow : Bool) : Except Nat (Tree × Bool) :=
  match Mem.stat t d with
  | .error e => if e = .notExist then .ok (t, true) else .error 403
  | .ok _ =>
    if ow then
      match Mem.removeAll t d with
      | .error _ => .error 403
      | .ok t1 => .ok (t1, false)
    else .error 412

/-- `moveFiles(ctx, fs, src, dst, overwrite)`. -/
def moveFiles (t : Tree) (s d : Path) (ow : Bool) : Tree × Nat :=
  match movePre t d ow with
  | .error st => (t, st)
  | .ok (t1, created) =>
    match Mem.rename t1 s d with
    | .error _ => (t1, 403)
    | .ok t2 => (t2, if created then 201 else 204)

/-! ### Request and handler -/

inductive HostClass where
  | none | same | other
  deriving DecidableEq, Repr

/-- The `Destination` header after `url.Parse`. -/
inductive Dest where
  | absent                       -- header missing or empty
  | invalid                      -- `url.Parse` fails
  | parsed (host : HostClass) (path : List Nat)
  deriving DecidableEq, Repr

inductive Overwrite where
  | absent | t | f | other
  deriving DecidableEq, Repr

/-- The `Depth` header after `parseDepth`. -/
inductive Depth where
  | absent | zero | one | infinity | invalid
  deriving DecidableEq, Repr

structure Req where
  isMove : Bool
  path : List Nat                -- r.URL.Path
  dest : Dest
  overwrite : Overwrite
  depth : Depth
  ifTokens : Option (List Nat)   -- `If: (<t1> <t2> …)`, tokens by index; `none` = no header
  deriving DecidableEq, Repr

/-- `Handler.stripPrefix`. -/
def stripPrefix (pre p : List Nat) : Option (List Nat) :=
  if pre = [] then some p
  else if pre.isPrefixOf p then some (p.drop pre.length)
  else none

/-- `confirmLocks` as seen by `handleCopyMove`: method, raw source (`[]` for COPY), raw
destination, `If` tokens; `none` = locks confirmed. -/
abbrev Gate := Bool → List Nat → List Nat → Option (List Nat) → Option Nat

/-- `Handler.handleCopyMove`: new tree and HTTP status.  After the textual `dst == src` test the
handler compares the cleaned names (`pathContains`): a destination that is the source or one of its
ancestors, and for MOVE also a destination inside the source, is refused with 403. -/
def handle (gate : Gate) (pre : List Nat) (t : Tree) (r : Req) : Tree × Nat :=
  match r.dest with
  | .absent => (t, 400)
  | .invalid => (t, 400)
  | .parsed host dpath =>
    if host = .other then (t, 502) else
    match stripPrefix pre r.path with
    | none => (t, 404)
    | some src =>
      match stripPrefix pre dpath with
      | none => (t, 404)
      | some dst =>
        if dst = [] then (t, 502)
        else if dst = src then (t, 403)
        -- cleaned names: same resource, destination contains the source, MOVE into own subtree
        else if under (clean dst) (clean src) ∨ (r.isMove ∧ under (clean src) (clean dst)) then (t, 403)
        else if !r.isMove then
          match gate false [] dst r.ifTokens with
          | some st => (t, st)
          | none =>
            if r.depth = .one ∨ r.depth = .invalid then (t, 400)
            else copyFiles 1000 t (clean src) (clean dst) (r.overwrite != .f)
                   (r.depth = .absent ∨ r.depth = .infinity)
        else
          match gate true src dst r.ifTokens with
          | some st => (t, st)
          | none =>
            if r.depth ≠ .absent ∧ r.depth ≠ .infinity then (t, 400)
            else moveFiles t (clean src) (clean dst) (r.overwrite == .t)

/-! ### `memLS` without expiry, as the gate used by the driver -/

structure Lock where
  root : Path
  zeroDepth : Bool
  deriving DecidableEq, Repr

/-- `memLS.canCreate(name, zeroDepth)` over the list of live locks. -/
def canCreate (locks : List Lock) (name : Path) (zd : Bool) : Bool :=
  -- the target node: not locked itself; for an infinite-depth request no lock at or below it
  !(locks.any (fun l => l.root == name)) &&
  (zd || !(locks.any (fun l => under name l.root))) &&
  -- no proper ancestor locked with infinite depth
  !(locks.any (fun l => !l.zeroDepth && under l.root name && l.root != name))

/-- `memLS.lookup(name, conditions...)`: first token whose lock covers `name`. -/
def lookupLock (locks : List (Option Lock)) (name : Path) : List Nat → Option Nat
  | [] => none
  | tok :: rest =>
    match locks[tok]? with
    | some (some l) =>
      if l.root = name ∨ (!l.zeroDepth ∧ under l.root name) then some tok
      else lookupLock locks name rest
    | _ => lookupLock locks name rest

/-- `confirmLocks` over `memLS` (locks are indexed by creation order; `none` = unlocked slot). -/
def memGate (locks : List (Option Lock)) : Gate := fun _isMove src dst ifTokens =>
  let live : List Lock := locks.filterMap id
  match ifTokens with
  | none =>
    let s := clean src
    if src ≠ [] ∧ !canCreate live s true then some 423
    else
      let live' := if src ≠ [] then live ++ [⟨s, true⟩] else live
      if canCreate live' (clean dst) true then none else some 423
  | some toks =>
    if src ≠ [] ∧ (lookupLock locks (clean src) toks).isNone then some 412
    else if (lookupLock locks (clean dst) toks).isNone then some 412
    else none

end NetVerif.Model.WebdavCopyMove
