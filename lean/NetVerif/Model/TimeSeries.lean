/-
Model of internal/timeseries/timeseries.go (levels / circular buckets / pending
observation) and of the bucket bookkeeping of trace/histogram.go.

Times are `Int` nanoseconds relative to the Unix epoch (unbounded, as
`time.Time` is for all practical purposes); durations are `Int` nanoseconds.
  * `Time.Sub` saturates to the int64 range            → `satDur`
  * `Time.UnixNano` wraps to int64                     → `wrap64`
  * Duration `/` is Go's truncating division           → `Int.tdiv`
  * the zero `time.Time{}` is year 1                   → `zeroTime`
The `Observable` of the harness is an integer with an `approx` flag which
`Multiply` sets (the only use of `Multiply` on the paths modelled here is the
"dst partially overlaps src" branch of `extract`); `Clear` resets both.
A nil bucket is `none`; `resetObservation` of a non-nil bucket keeps it
non-nil (`some zero`).
Assumed and not modelled: `numBuckets ≥ 1`, at least one level, strictly
positive resolutions (Go would divide by zero / loop forever otherwise);
`ScaleBy`, `Recent`, `RecentList` (thin wrappers / float scaling).
-/
namespace NetVerif.Model.TimeSeries

/-! ### time arithmetic -/

def zeroTime : Int := -62135596800000000000

def minDur : Int := -9223372036854775808
def maxDur : Int := 9223372036854775807

/-- `Time.Sub` result for the exact difference `x`. -/
def satDur (x : Int) : Int :=
  if x < minDur then minDur else if x > maxDur then maxDur else x

/-- `Time.UnixNano` (int64 wrap-around of the exact value). -/
def wrap64 (x : Int) : Int := (x + 9223372036854775808) % 18446744073709551616 - 9223372036854775808

/-! ### observations -/

structure Obs where
  v : Int
  approx : Bool
deriving Repr, DecidableEq

def Obs.zero : Obs := ⟨0, false⟩
def Obs.exact (v : Int) : Obs := ⟨v, false⟩
def Obs.add (a b : Obs) : Obs := ⟨a.v + b.v, a.approx || b.approx⟩
/-- `Multiply(ratio)` of the harness observable: only marks the value approximate. -/
def Obs.mul (a : Obs) : Obs := ⟨a.v, true⟩

/-- `resetObservation` applied to a bucket slot (the slot itself is not reassigned). -/
def clearB : Option Obs → Option Obs
  | none => none
  | some _ => some Obs.zero

/-- `b.Add(o)` on a slot, allocating when nil. -/
def addB (o : Obs) : Option Obs → Option Obs
  | none => some (Obs.add Obs.zero o)
  | some x => some (Obs.add x o)

def valB : Option Obs → Obs
  | none => Obs.zero
  | some x => x

/-! ### levels -/

structure Level where
  oldest : Nat
  newest : Nat
  end_ : Int
  size : Int
  buckets : List (Option Obs)
deriving Repr, DecidableEq

structure TS where
  n : Nat
  levels : List Level
  lastAdd : Int
  total : Obs
  pending : Obs
  pendingTime : Int
  dirty : Bool
deriving Repr, DecidableEq

/-- `tsLevel.Clear` after `InitLevel`. -/
def Level.fresh (n : Nat) (size : Int) : Level :=
  { oldest := 0, newest := n - 1, end_ := zeroTime, size := size, buckets := List.replicate n none }

/-- `timeSeries.init` followed by `Clear` (resolutions strictly increasing is the caller's duty). -/
def TS.init (n : Nat) (resolutions : List Int) : TS :=
  { n := n, levels := resolutions.map (Level.fresh n), lastAdd := zeroTime, total := Obs.zero,
    pending := Obs.zero, pendingTime := zeroTime, dirty := false }

/-- The two public configurations (`NewTimeSeries`, `NewMinuteHourSeries`); nanoseconds. -/
def timeSeriesNumBuckets : Nat := 64
def minuteHourSeriesNumBuckets : Nat := 60
def timeSeriesResolutions : List Int :=
  [1000000000, 10000000000, 60000000000, 600000000000, 3600000000000, 21600000000000,
   86400000000000, 604800000000000, 2419200000000000, 9676800000000000]
def minuteHourSeriesResolutions : List Int := [1000000000, 60000000000]
def TS.newTimeSeries : TS := TS.init timeSeriesNumBuckets timeSeriesResolutions
def TS.newMinuteHourSeries : TS := TS.init minuteHourSeriesNumBuckets minuteHourSeriesResolutions

/-- `timeSeries.Clear`. -/
def TS.clear (s : TS) : TS :=
  { s with levels := s.levels.map (fun l => Level.fresh s.n l.size), lastAdd := zeroTime,
           total := Obs.zero, pending := Obs.zero, pendingTime := zeroTime, dirty := false }

/-- One iteration of the rotation loop of `advance`. -/
def Level.rotate (n : Nat) (l : Level) : Level :=
  { l with end_ := l.end_ + l.size, newest := l.oldest, oldest := (l.oldest + 1) % n,
           buckets := l.buckets.modify l.oldest clearB }

/-- `for t.After(level.end) { … }` with explicit fuel. -/
def rotLoop (n : Nat) : Nat → Int → Level → Level
  | 0, _, l => l
  | fuel + 1, t, l => if t > l.end_ then rotLoop n fuel t (l.rotate n) else l

/-- The "sufficiently far" reset of `advance`. -/
def Level.farReset (t : Int) (l : Level) : Level :=
  { l with buckets := l.buckets.map clearB, end_ := (wrap64 t).tdiv l.size * l.size }

/-- Body of the level loop of `advance` for one level that is behind `t`. -/
def Level.advanceTo (n : Nat) (t : Int) (l : Level) : Level :=
  let l1 := if ¬ (t < l.end_ + l.size * n) then l.farReset t else l
  rotLoop n (t - l1.end_).toNat t l1

def advLevels (n : Nat) : Int → List Level → List Level
  | _, [] => []
  | t, l :: rest =>
    if ¬ (l.end_ < t) then l :: rest
    else
      let l2 := l.advanceTo n t
      l2 :: advLevels n l2.end_ rest

/-- `timeSeries.advance`. -/
def TS.advance (s : TS) (t : Int) : TS :=
  match s.levels with
  | [] => s
  | l0 :: _ => if ¬ (t > l0.end_) then s else { s with levels := advLevels s.n t s.levels }

/-- Per-level part of `mergeValue`. -/
def Level.merge (n : Nat) (o : Obs) (t : Int) (l : Level) : Level :=
  let index : Int := ((n : Int) - 1) - (satDur (l.end_ - t)).tdiv l.size
  if 0 ≤ index ∧ index < n then
    { l with buckets := l.buckets.modify ((l.oldest + index.toNat) % n) (addB o) }
  else l

/-- `timeSeries.mergeValue`. -/
def TS.mergeValue (s : TS) (o : Obs) (t : Int) : TS :=
  { s with levels := s.levels.map (Level.merge s.n o t), total := Obs.add s.total o }

/-- `timeSeries.mergePendingUpdates`. -/
def TS.mergePending (s : TS) : TS :=
  if s.dirty then
    { (s.mergeValue s.pending s.pendingTime) with pending := Obs.zero, dirty := false }
  else s

def TS.end0 (s : TS) : Int :=
  match s.levels with
  | [] => zeroTime
  | l :: _ => l.end_

def TS.size0 (s : TS) : Int :=
  match s.levels with
  | [] => 1
  | l :: _ => l.size

/-- `timeSeries.AddWithTime`. -/
def TS.addWithTime (s : TS) (o : Obs) (t : Int) : TS :=
  let s := if t > s.lastAdd then { s with lastAdd := t } else s
  if t > s.pendingTime then
    let s := (s.advance t).mergePending
    { s with pendingTime := s.end0, pending := o, dirty := true }
  else if t > s.pendingTime + (-1) * s.size0 then
    { s with pending := Obs.add s.pending o, dirty := true }
  else
    s.mergeValue o t

/-- `timeSeries.Total` (state after the call, value returned). -/
def TS.totalOp (s : TS) : TS × Obs :=
  let s := s.mergePending
  (s, s.total)

/-- Common prefix of `Latest` / `LatestBuckets`: advance to `now`, merge pending, then keep
`pendingTime` in step with the (possibly advanced) finest level. -/
def TS.catchUp (s : TS) (now : Int) : TS :=
  let s1 := (if s.end0 < now then s.advance now else s).mergePending
  { s1 with pendingTime := s1.end0 }

/-- Walk `num` buckets backwards (circularly) from `index`. -/
def walkBack (n : Nat) (buckets : List (Option Obs)) : Nat → Nat → List (Option Obs)
  | 0, _ => []
  | num + 1, index =>
    buckets.getD index none :: walkBack n buckets num ((if index = 0 then n else index) - 1)

/-- `timeSeries.Latest`; `none` = Go panic (level out of range). -/
def TS.latest (s : TS) (now : Int) (level : Int) (num : Int) : TS × Option Obs :=
  let s := s.catchUp now
  if level < 0 then (s, none) else
  match s.levels[level.toNat]? with
  | none => (s, none)
  | some l =>
    (s, some ((walkBack s.n l.buckets num.toNat l.newest).foldl (fun acc b => Obs.add acc (valB b)) Obs.zero))

inductive LB where
  | nil
  | panic
  | vals (xs : List Obs)

/-- `timeSeries.LatestBuckets`. -/
def TS.latestBuckets (s : TS) (now : Int) (level : Int) (num : Int) : TS × LB :=
  if level < 0 ∨ level > s.levels.length then (s, LB.nil)
  else if num < 0 ∨ num ≥ s.n then (s, LB.nil)
  else
    let s := s.catchUp now
    match s.levels[level.toNat]? with
    | none => (s, LB.panic)
    | some l => (s, LB.vals ((walkBack s.n l.buckets num.toNat l.newest).map valB))

/-! ### ComputeRange / extract -/

structure Cursor where
  srcIndex : Int
  srcStart : Int
  res : Obs
  broke : Bool

/-- Inner `for srcIndex < numBuckets && srcStart.Before(dstEnd)` loop of `extract`. -/
def extractInner (n : Nat) (l : Level) (lastAdd dstStart dstEnd : Int) : Nat → Cursor → Cursor
  | 0, c => c
  | fuel + 1, c =>
    if ¬ (c.srcIndex < n ∧ c.srcStart < dstEnd) then c else
    let srcEnd0 := c.srcStart + l.size
    let srcEnd := if srcEnd0 > lastAdd then lastAdd else srcEnd0
    if ¬ (srcEnd < dstStart) then
      let srcValue := l.buckets.getD ((c.srcIndex.toNat + l.oldest) % n) none
      let res :=
        if ¬ (c.srcStart < dstStart) ∧ ¬ (srcEnd > dstEnd) then
          (match srcValue with | none => c.res | some x => Obs.add c.res x)
        else
          Obs.add c.res (Obs.mul (valB srcValue))
      if srcEnd > dstEnd then { c with res := res, broke := true }
      else extractInner n l lastAdd dstStart dstEnd fuel
             { srcIndex := c.srcIndex + 1, srcStart := c.srcStart + l.size, res := res, broke := false }
    else
      extractInner n l lastAdd dstStart dstEnd fuel
        { srcIndex := c.srcIndex + 1, srcStart := c.srcStart + l.size, res := c.res, broke := false }

/-- Outer `for i := 0; i < num; i++` loop of `extract`. -/
def extractOuter (n : Nat) (l : Level) (lastAdd dstInterval : Int) :
    Nat → Int → Int → Int → List Obs
  | 0, _, _, _ => []
  | num + 1, dstStart, srcIndex, srcStart =>
    let dstEnd := dstStart + dstInterval
    let c := extractInner n l lastAdd dstStart dstEnd (n + 1)
               { srcIndex := srcIndex, srcStart := srcStart, res := Obs.zero, broke := false }
    c.res :: extractOuter n l lastAdd dstInterval num (dstStart + dstInterval) c.srcIndex c.srcStart

/-- `timeSeries.extract` (pending already merged by the caller model). `num ≥ 1`. -/
def extract (n : Nat) (l : Level) (lastAdd start finish : Int) (num : Nat) : List Obs :=
  let dstInterval := (satDur (finish - start)).tdiv num
  let srcStart := l.end_ + (-l.size * n)
  let adv : Int := if start > srcStart then (satDur (start - srcStart)).tdiv l.size else 0
  extractOuter n l lastAdd dstInterval num start adv (srcStart + adv * l.size)

/-- Level chosen by `ComputeRange`: the first that covers `start`, else the last. -/
def pickLevel (n : Nat) (start : Int) : List Level → Option Level
  | [] => none
  | [l] => some l
  | l :: rest => if ¬ (start < l.end_ + (-l.size * n)) then some l else pickLevel n start rest

/-- `timeSeries.ComputeRange`. `LB.nil` = nil result, `LB.panic` = division by zero for `num = 0`. -/
def TS.computeRange (s : TS) (start finish : Int) (num : Int) : TS × LB :=
  if start > finish then (s, LB.nil)
  else if num < 0 then (s, LB.nil)
  else
    let s1 := s.mergePending
    match pickLevel s1.n start s1.levels with
    | none => (s, LB.panic)
    | some l =>
      if num = 0 then (s1, LB.panic)
      else (s1, LB.vals (extract s1.n l s1.lastAdd start finish num.toNat))

/-- `timeSeries.Range`: `none` = panic (`nil[0]`). -/
def TS.range (s : TS) (start finish : Int) : TS × Option Obs :=
  match s.computeRange start finish 1 with
  | (s', LB.vals (x :: _)) => (s', some x)
  | (s', _) => (s', none)

/-! ### operations of a history -/

inductive Op where
  | add (t v : Int)
  | total
  | latest (now level num : Int)
  | latestBuckets (now level num : Int)
  | computeRange (start finish num : Int)
  | clear

def TS.step (s : TS) : Op → TS
  | .add t v => s.addWithTime (Obs.exact v) t
  | .total => s.totalOp.1
  | .latest now level num => (s.latest now level num).1
  | .latestBuckets now level num => (s.latestBuckets now level num).1
  | .computeRange a b num => (s.computeRange a b num).1
  | .clear => s.clear

def TS.run (s : TS) (ops : List Op) : TS := ops.foldl TS.step s

/-! ### trace/histogram.go -/

def bucketCount : Nat := 38

/-- `log2` for a non-negative argument: the bit length. -/
def bitLen : Nat → Nat
  | 0 => 0
  | n + 1 => Nat.log2 (n + 1) + 1

/-- `getBucket`. -/
def getBucket (i : Int) : Nat :=
  let lg := if i ≤ 0 then 0 else bitLen i.toNat
  let index : Int := (lg : Int) - 1
  if index < 0 then 0 else if index ≥ bucketCount then bucketCount - 1 else index.toNat

structure Hist where
  sum : Int
  buckets : Option (List Int)
  value : Nat
  valueCount : Int
deriving Repr, DecidableEq

def Hist.empty : Hist := ⟨0, none, 0, 0⟩

def Hist.allocate (h : Hist) : Hist :=
  match h.buckets with
  | some _ => h
  | none => { h with buckets := some ((List.replicate bucketCount (0 : Int)).set h.value h.valueCount),
                     value := 0, valueCount := -1 }

def bump (bs : Option (List Int)) (i : Nat) (d : Int) : Option (List Int) :=
  bs.map (fun l => l.modify i (· + d))

/-- `addMeasurement` (the float `sumOfSquares` is not modelled). -/
def Hist.addMeasurement (h : Hist) (value : Int) : Hist :=
  let h := { h with sum := h.sum + value }
  let bi := getBucket value
  if h.valueCount = 0 ∨ (h.valueCount > 0 ∧ h.value = bi) then
    { h with value := bi, valueCount := h.valueCount + 1 }
  else
    let h := h.allocate
    { h with buckets := bump h.buckets bi 1 }

/-- `histogram.Add`. -/
def Hist.add (h o : Hist) : Hist :=
  let h1 :=
    if o.valueCount = 0 then h
    else if h.valueCount ≥ 0 ∧ o.valueCount > 0 ∧ h.value = o.value then
      { h with valueCount := h.valueCount + o.valueCount }
    else
      let h := h.allocate
      if o.valueCount ≥ 0 then { h with buckets := bump h.buckets o.value o.valueCount }
      else
        { h with buckets := h.buckets.map (fun l => List.zipWith (· + ·) l (o.buckets.getD [])) }
  { h1 with sum := h1.sum + o.sum }

/-- `histogram.total`. -/
def Hist.total (h : Hist) : Int :=
  (if h.valueCount ≥ 0 then h.valueCount else 0) + (h.buckets.getD []).foldl (· + ·) 0

end NetVerif.Model.TimeSeries
