/-
Model of internal/quic/quicwire/wire.go: QUIC variable-length integers
(RFC 9000 §16) and the length-prefixed byte helpers.
Bytes are `Nat`s < 256; shifts are written as `/`, `%`, `*` by powers of two.
`none` on the append side models the Go panic ("varint too large",
"uint8-prefixed bytes too large"); `none` on the consume side models the
negative length the Go functions return on truncated input.
-/
namespace NetVerif.Model.VarintQuic

def maxVarint : Nat := 4611686018427387903  -- 2^62 - 1

/-- `SizeVarint`. -/
def sizeVarint (v : Nat) : Option Nat :=
  if v ≤ 63 then some 1
  else if v ≤ 16383 then some 2
  else if v ≤ 1073741823 then some 4
  else if v ≤ 4611686018427387903 then some 8
  else none

/-- `AppendVarint(nil, v)`. -/
def appendVarint (v : Nat) : Option (List Nat) :=
  if v ≤ 63 then some [v]
  else if v ≤ 16383 then some [64 + v / 256, v % 256]
  else if v ≤ 1073741823 then
    some [128 + v / 16777216, v / 65536 % 256, v / 256 % 256, v % 256]
  else if v ≤ 4611686018427387903 then
    some [192 + v / 72057594037927936, v / 281474976710656 % 256,
          v / 1099511627776 % 256, v / 4294967296 % 256,
          v / 16777216 % 256, v / 65536 % 256, v / 256 % 256, v % 256]
  else none

/-- `ConsumeVarint`: value and number of bytes read. -/
def consumeVarint (b : List Nat) : Option (Nat × Nat) :=
  match b with
  | [] => none
  | b0 :: rest =>
    if b0 / 64 = 0 then some (b0 % 64, 1)
    else if b0 / 64 = 1 then
      match rest with
      | b1 :: _ => some (b0 % 64 * 256 + b1, 2)
      | _ => none
    else if b0 / 64 = 2 then
      match rest with
      | b1 :: b2 :: b3 :: _ =>
        some (b0 % 64 * 16777216 + b1 * 65536 + b2 * 256 + b3, 4)
      | _ => none
    else
      match rest with
      | b1 :: b2 :: b3 :: b4 :: b5 :: b6 :: b7 :: _ =>
        some (b0 % 64 * 72057594037927936 + b1 * 281474976710656 +
              b2 * 1099511627776 + b3 * 4294967296 + b4 * 16777216 +
              b5 * 65536 + b6 * 256 + b7, 8)
      | _ => none

/-- `AppendUint8Bytes(nil, v)`. -/
def appendUint8Bytes (v : List Nat) : Option (List Nat) :=
  if v.length > 255 then none else some (v.length :: v)

/-- `ConsumeUint8Bytes`: payload and total bytes consumed. -/
def consumeUint8Bytes (b : List Nat) : Option (List Nat × Nat) :=
  match b with
  | [] => none
  | sz :: rest => if sz > rest.length then none else some (rest.take sz, sz + 1)

/-- `AppendVarintBytes(nil, v)`. -/
def appendVarintBytes (v : List Nat) : Option (List Nat) :=
  match appendVarint v.length with
  | some p => some (p ++ v)
  | none => none

/-- `ConsumeVarintBytes`. -/
def consumeVarintBytes (b : List Nat) : Option (List Nat × Nat) :=
  match consumeVarint b with
  | none => none
  | some (sz, n) =>
    if sz > (b.drop n).length then none else some ((b.drop n).take sz, sz + n)

/-- `ConsumeUint32` (big endian). -/
def consumeUint32 (b : List Nat) : Option (Nat × Nat) :=
  match b with
  | b0 :: b1 :: b2 :: b3 :: _ => some (b0 * 16777216 + b1 * 65536 + b2 * 256 + b3, 4)
  | _ => none

/-- `ConsumeUint64` (big endian). -/
def consumeUint64 (b : List Nat) : Option (Nat × Nat) :=
  match b with
  | b0 :: b1 :: b2 :: b3 :: b4 :: b5 :: b6 :: b7 :: _ =>
    some (b0 * 72057594037927936 + b1 * 281474976710656 + b2 * 1099511627776 +
          b3 * 4294967296 + b4 * 16777216 + b5 * 65536 + b6 * 256 + b7, 8)
  | _ => none

end NetVerif.Model.VarintQuic
