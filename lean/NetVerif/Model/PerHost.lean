import NetVerif.Model.NetIP
/-
Model of proxy/per_host.go: `PerHost.AddFromString`, `AddIP/AddNetwork/AddZone/AddHost` and
`dialerForRequest`.  Strings are byte lists.  `net.ParseCIDR` and `netip.ParseAddr` are NOT
modelled: they are parameters (`Oracles`); in the differential run the harness tabulates the real
functions on the strings that occur.  `net.SplitHostPort` of the dialed address is done by the
harness (a dial is given as the split host plus `netip.ParseAddr(host)`).
-/
namespace NetVerif.Model.PerHost
open NetVerif.Model.NetIP

structure Oracles where
  /-- `net.ParseCIDR(s)`: network IP bytes, mask ones, mask bits. -/
  parseCIDR : List Nat → Option (List Nat × Nat × Nat)
  /-- `netip.ParseAddr(s)` followed by `AsSlice()` (4 or 16 bytes). -/
  parseAddr : List Nat → Option (List Nat)

/-- The four rule lists of a `PerHost`. -/
structure State where
  networks : List (List Nat × Nat × Nat) := []
  ips : List (List Nat) := []
  zones : List (List Nat) := []
  hosts : List (List Nat) := []
  deriving Repr, DecidableEq

/-- One call of the public `Add*` API. -/
inductive Add where
  | network (ip : List Nat) (ones bits : Nat)
  | ip (ip : List Nat)
  | zone (zone : List Nat)
  | host (host : List Nat)
  deriving Repr, DecidableEq

/-- `AddZone`'s normalisation: trim one trailing ".", lower-case, make sure there is a leading ".". -/
def normZone (zone : List Nat) : List Nat :=
  let z := toLower (trimSuffixDot zone)
  if hasPrefix z [46] then z else 46 :: z

/-- `AddNetwork` / `AddIP` / `AddZone` / `AddHost`. -/
def State.add (p : State) : Add → State
  | .network ip ones bits => { p with networks := p.networks ++ [(ip, ones, bits)] }
  | .ip ip => { p with ips := p.ips ++ [ip] }
  | .zone z => { p with zones := p.zones ++ [normZone z] }
  | .host h => { p with hosts := p.hosts ++ [toLower (trimSuffixDot h)] }

def slash : Nat := 47
def starDot : List Nat := [42, 46]

/-- The loop body of `AddFromString` for one comma-separated value. -/
def pieceAdd (O : Oracles) (piece : List Nat) : Option Add :=
  let host := trimSpace piece
  if host = [] then none
  else if host.contains slash then
    match O.parseCIDR host with
    | some (ip, ones, bits) => some (.network ip ones bits)
    | none => none
  else match O.parseAddr host with
  | some ip => some (.ip ip)
  | none =>
    if hasPrefix host starDot then some (.zone (host.drop 1))
    else some (.host host)

/-- `AddFromString`. -/
def addFromString (O : Oracles) (p : State) (s : List Nat) : State :=
  (splitComma s).foldl (fun p piece => match pieceAdd O piece with
    | some a => p.add a
    | none => p) p

/-- `dialerForRequest(host)`: `true` = the bypass dialer, `false` = the default dialer.
`ip` is `netip.ParseAddr(host)` (`none` = error).  (`zone[1:]` cannot panic: see `zones_dotted`.) -/
def dialerForRequest (p : State) (host : List Nat) (ip : Option (List Nat)) : Bool :=
  match ip with
  | some ip =>
    if p.networks.any (fun n => contains n.1 n.2.1 n.2.2 ip) then true
    else if p.ips.any (fun b => ipEqual b ip) then true
    else false
  | none =>
    -- `host = strings.ToLower(strings.TrimSuffix(host, "."))`: rules are stored lower-cased and
    -- without the dot of a rooted name
    let host := toLower (trimSuffixDot host)
    if p.zones.any (fun z => hasSuffix host z || host == z.drop 1) then true
    else if p.hosts.any (fun h => h == host) then true
    else false

end NetVerif.Model.PerHost
