/-!
Model of golang.org/x/net/http/httpguts/httplex.go (C55).

Strings are Go strings = byte sequences: `List Nat` with every element < 256.
Runes are `Int` (Go `rune` = int32).  Core Lean only.

The functions mirror the Go code:
* `isTokenTable`            — the `[256]bool` table (here built from the list of keys that
                              are `true` in the composite literal, in source order);
* `isTokenRune`             — `r < utf8.RuneSelf && isTokenTable[byte(r)]`; `byte(r)` of a
                              negative int32 is `r mod 256`;
* `validHeaderFieldName`    — `len(v) != 0` and the byte loop;
* `validHeaderFieldValue`   — byte loop with `isCTL(b) && !isLWS(b)`;
* `trimOWS`                 — the two trimming loops;
* `tokenEqual`              — `for i, b := range t1` ranges over RUNES of `t1`.  Any byte
                              ≥ 0x80 starts a rune ≥ 0x80 (a multi-byte rune or U+FFFD for
                              invalid UTF-8), so the loop returns false at the first such
                              byte; before that point rune index = byte index.  Hence the
                              byte-wise model below is exact;
* `headerValueContainsToken`— the `strings.IndexByte(v, ',')` loop;
* `headerValuesContainsToken`.
-/
namespace NetVerif.Model.Httpguts

/-- Keys set to `true` in `isTokenTable`, in the order of the Go source. -/
def tokenKeys : List Nat :=
  [33, 35, 36, 37, 38, 39, 42, 43, 45, 46,
   48, 49, 50, 51, 52, 53, 54, 55, 56, 57,
   65, 66, 67, 68, 69, 70, 71, 72, 73, 74, 75, 76, 77, 78, 79, 80, 81, 82, 83, 84, 85, 87, 86, 88, 89, 90,
   94, 95, 96,
   97, 98, 99, 100, 101, 102, 103, 104, 105, 106, 107, 108, 109, 110, 111, 112, 113, 114, 115, 116, 117,
   118, 119, 120, 121, 122,
   124, 126]

def isTokenTable : List Bool := (List.range 256).map (fun b => tokenKeys.elem b)

/-- `isTokenTable[b]` for a byte. -/
def isTokenByte (b : Nat) : Bool := isTokenTable.getD b false

def runeSelf : Nat := 128

/-- Go `IsTokenRune(r rune)`. -/
def isTokenRune (r : Int) : Bool :=
  decide (r < (runeSelf : Int)) && isTokenTable.getD (r % 256).toNat false

def isOWS (b : Nat) : Bool := b == 32 || b == 9
def isLWS (b : Nat) : Bool := b == 32 || b == 9
def isCTL (b : Nat) : Bool := decide (b < 32) || b == 127

def lowerASCII (b : Nat) : Nat :=
  if decide (65 ≤ b) && decide (b ≤ 90) then (b + 32) % 256 else b

/-- The loop of `ValidHeaderFieldName`. -/
def nameLoop : List Nat → Bool
  | [] => true
  | b :: rest => if !isTokenByte b then false else nameLoop rest

def validHeaderFieldName (v : List Nat) : Bool :=
  if v.length == 0 then false else nameLoop v

/-- The loop of `ValidHeaderFieldValue`. -/
def validHeaderFieldValue : List Nat → Bool
  | [] => true
  | b :: rest => if isCTL b && !isLWS b then false else validHeaderFieldValue rest

/-- First loop of `trimOWS`. -/
def trimLeft : List Nat → List Nat
  | [] => []
  | b :: rest => if isOWS b then trimLeft rest else b :: rest

/-- Second loop of `trimOWS` (drops trailing OWS). -/
def trimRight (x : List Nat) : List Nat := (trimLeft x.reverse).reverse

def trimOWS (x : List Nat) : List Nat := trimRight (trimLeft x)

/-- Loop of `tokenEqual` (after the length test). -/
def tokenEqualLoop : List Nat → List Nat → Bool
  | [], _ => true
  | b :: r1, c :: r2 =>
    if b ≥ runeSelf then false
    else if lowerASCII b != lowerASCII c then false
    else tokenEqualLoop r1 r2
  | _ :: _, [] => false -- unreachable: lengths are equal

def tokenEqual (t1 t2 : List Nat) : Bool :=
  if t1.length != t2.length then false else tokenEqualLoop t1 t2

/-- `headerValueContainsToken`: `acc` is the reversed text since the last comma. -/
def hvctLoop (token : List Nat) : List Nat → List Nat → Bool
  | acc, [] => tokenEqual (trimOWS acc.reverse) token
  | acc, b :: rest =>
    if b == 44 then
      if tokenEqual (trimOWS acc.reverse) token then true else hvctLoop token [] rest
    else hvctLoop token (b :: acc) rest

def headerValueContainsToken (v token : List Nat) : Bool := hvctLoop token [] v

def headerValuesContainsToken : List (List Nat) → List Nat → Bool
  | [], _ => false
  | v :: vs, token => if headerValueContainsToken v token then true else headerValuesContainsToken vs token

/-- `ValidHostHeader` table keys (not part of C55's statement; modelled for the D-tie). -/
def hostKeys : List Nat :=
  [48, 49, 50, 51, 52, 53, 54, 55, 56, 57,
   97, 98, 99, 100, 101, 102, 103, 104, 105, 106, 107, 108, 109, 110, 111, 112, 113, 114, 115, 116, 117,
   118, 119, 120, 121, 122,
   65, 66, 67, 68, 69, 70, 71, 72, 73, 74, 75, 76, 77, 78, 79, 80, 81, 82, 83, 84, 85, 86, 87, 88, 89, 90,
   33, 36, 37, 38, 40, 41, 42, 43, 44, 45, 46, 58, 59, 61, 91, 39, 93, 95, 126]

def validHostByte : List Bool := (List.range 256).map (fun b => hostKeys.elem b)

def validHostHeader (h : List Nat) : Bool := h.all (fun b => validHostByte.getD b false)

end NetVerif.Model.Httpguts
