/-
Model of golang.org/x/net/bpf: constants.go, instructions.go (every typed
instruction's `Assemble`, `RawInstruction.Disassemble`, `jumpToRaw`,
`jumpOpToTest`, `assembleLoad`) and asm.go (`Assemble`, `Disassemble`).

Go field types are modelled by ranges: `uint8/uint16/uint32` fields are `Nat`
(well-formedness predicates `Raw.WF`, `Instr.WF` state the type ranges), `int`
fields (`LoadScratch.N`, `StoreScratch.N`, `Load*.Size`, `Extension`) are `Int`
in the 64-bit range.  Bit operations are written exactly as in the Go source
(`&&&`, `|||` on the named masks of constants.go); `Proofs/Lemmas/Bpf.lean`
proves the arithmetic reading of every mask for 16-bit values.
`none` from `asm` models a non-nil error from `Assemble`.
-/
namespace NetVerif.Model.Bpf

/-! ### constants.go -/
abbrev regA : Nat := 0
abbrev regX : Nat := 1

abbrev aluOpAdd : Nat := 0x00
abbrev aluOpSub : Nat := 0x10
abbrev aluOpMul : Nat := 0x20
abbrev aluOpDiv : Nat := 0x30
abbrev aluOpOr : Nat := 0x40
abbrev aluOpAnd : Nat := 0x50
abbrev aluOpShiftLeft : Nat := 0x60
abbrev aluOpShiftRight : Nat := 0x70
abbrev aluOpNeg : Nat := 0x80
abbrev aluOpMod : Nat := 0x90
abbrev aluOpXor : Nat := 0xa0

abbrev jumpEqual : Nat := 0
abbrev jumpNotEqual : Nat := 1
abbrev jumpGreaterThan : Nat := 2
abbrev jumpLessThan : Nat := 3
abbrev jumpGreaterOrEqual : Nat := 4
abbrev jumpLessOrEqual : Nat := 5
abbrev jumpBitsSet : Nat := 6
abbrev jumpBitsNotSet : Nat := 7

abbrev extOffset : Int := -0x1000
abbrev extLen : Int := 1

abbrev opMaskCls : Nat := 0x7
abbrev opMaskLoadDest : Nat := 0x01
abbrev opMaskLoadWidth : Nat := 0x18
abbrev opMaskLoadMode : Nat := 0xe0
abbrev opMaskOperand : Nat := 0x08
abbrev opMaskOperator : Nat := 0xf0

abbrev opClsLoadA : Nat := 0
abbrev opClsLoadX : Nat := 1
abbrev opClsStoreA : Nat := 2
abbrev opClsStoreX : Nat := 3
abbrev opClsALU : Nat := 4
abbrev opClsJump : Nat := 5
abbrev opClsReturn : Nat := 6
abbrev opClsMisc : Nat := 7

abbrev opAddrModeImmediate : Nat := 0x00
abbrev opAddrModeAbsolute : Nat := 0x20
abbrev opAddrModeIndirect : Nat := 0x40
abbrev opAddrModeScratch : Nat := 0x60
abbrev opAddrModePacketLen : Nat := 0x80
abbrev opAddrModeMemShift : Nat := 0xa0

abbrev opLoadWidth4 : Nat := 0x00
abbrev opLoadWidth2 : Nat := 0x08
abbrev opLoadWidth1 : Nat := 0x10

abbrev opOperandConstant : Nat := 0x00
abbrev opOperandX : Nat := 0x08

abbrev opJumpAlways : Nat := 0x00
abbrev opJumpEqual : Nat := 0x10
abbrev opJumpGT : Nat := 0x20
abbrev opJumpGE : Nat := 0x30
abbrev opJumpSet : Nat := 0x40

abbrev opRetSrcConstant : Nat := 0x00
abbrev opRetSrcA : Nat := 0x10

abbrev opMiscTAX : Nat := 0x00
abbrev opMiscTXA : Nat := 0x80

/-- `extOffset + 0xffffffff` (the constant the Go code compares `K` with). -/
abbrev extThreshold : Nat := 0xffffefff

/-! ### instruction types -/

/-- `RawInstruction{Op uint16; Jt, Jf uint8; K uint32}`. -/
structure Raw where
  op : Nat
  jt : Nat
  jf : Nat
  k : Nat
deriving DecidableEq, Repr, Inhabited

/-- The Go types of the fields. -/
def Raw.WF (r : Raw) : Prop := r.op < 65536 ∧ r.jt < 256 ∧ r.jf < 256 ∧ r.k < 4294967296

instance (r : Raw) : Decidable r.WF := by unfold Raw.WF; exact inferInstance

/-- Every `Instruction` implementation of package bpf. -/
inductive Instr where
  | loadConstant (dst : Nat) (val : Nat)
  | loadScratch (dst : Nat) (n : Int)
  | loadAbsolute (off : Nat) (size : Int)
  | loadIndirect (off : Nat) (size : Int)
  | loadMemShift (off : Nat)
  | loadExtension (num : Int)
  | storeScratch (src : Nat) (n : Int)
  | aluOpConstant (op : Nat) (val : Nat)
  | aluOpX (op : Nat)
  | negateA
  | jump (skip : Nat)
  | jumpIf (cond : Nat) (val : Nat) (skipTrue : Nat) (skipFalse : Nat)
  | jumpIfX (cond : Nat) (skipTrue : Nat) (skipFalse : Nat)
  | retA
  | retConstant (val : Nat)
  | txa
  | tax
  | raw (r : Raw)
deriving DecidableEq, Repr, Inhabited

def int64WF (n : Int) : Prop := -9223372036854775808 ≤ n ∧ n < 9223372036854775808

instance (n : Int) : Decidable (int64WF n) := by unfold int64WF; exact inferInstance

/-- Go type ranges of the fields of each instruction value. -/
def Instr.WF : Instr → Prop
  | .loadConstant dst val => dst < 65536 ∧ val < 4294967296
  | .loadScratch dst n => dst < 65536 ∧ int64WF n
  | .loadAbsolute off size => off < 4294967296 ∧ int64WF size
  | .loadIndirect off size => off < 4294967296 ∧ int64WF size
  | .loadMemShift off => off < 4294967296
  | .loadExtension num => int64WF num
  | .storeScratch src n => src < 65536 ∧ int64WF n
  | .aluOpConstant op val => op < 65536 ∧ val < 4294967296
  | .aluOpX op => op < 65536
  | .negateA => True
  | .jump skip => skip < 4294967296
  | .jumpIf cond val st sf => cond < 65536 ∧ val < 4294967296 ∧ st < 256 ∧ sf < 256
  | .jumpIfX cond st sf => cond < 65536 ∧ st < 256 ∧ sf < 256
  | .retA => True
  | .retConstant val => val < 4294967296
  | .txa => True
  | .tax => True
  | .raw r => r.WF

instance (i : Instr) : Decidable i.WF := by
  cases i <;> unfold Instr.WF <;> exact inferInstance

/-! ### Assemble -/

/-- `assembleLoad(dst, loadSize, mode, k)`. -/
def assembleLoad (dst : Nat) (loadSize : Int) (mode k : Nat) : Option Raw :=
  if dst = regA ∨ dst = regX then
    let cls := if dst = regA then opClsLoadA else opClsLoadX
    if loadSize = 1 then some ⟨cls ||| opLoadWidth1 ||| mode, 0, 0, k⟩
    else if loadSize = 2 then some ⟨cls ||| opLoadWidth2 ||| mode, 0, 0, k⟩
    else if loadSize = 4 then some ⟨cls ||| opLoadWidth4 ||| mode, 0, 0, k⟩
    else none
  else none

/-- The `switch test` of `jumpToRaw`: (cond, flip). -/
def jumpTestToOp (test : Nat) : Option (Nat × Bool) :=
  if test = jumpEqual then some (opJumpEqual, false)
  else if test = jumpNotEqual then some (opJumpEqual, true)
  else if test = jumpGreaterThan then some (opJumpGT, false)
  else if test = jumpLessThan then some (opJumpGE, true)
  else if test = jumpGreaterOrEqual then some (opJumpGE, false)
  else if test = jumpLessOrEqual then some (opJumpGT, true)
  else if test = jumpBitsSet then some (opJumpSet, false)
  else if test = jumpBitsNotSet then some (opJumpSet, true)
  else none

/-- `jumpToRaw(test, operand, k, skipTrue, skipFalse)`. -/
def jumpToRaw (test operand k skipTrue skipFalse : Nat) : Option Raw :=
  match jumpTestToOp test with
  | none => none
  | some (cond, flip) =>
    let jt := if flip then skipFalse else skipTrue
    let jf := if flip then skipTrue else skipFalse
    some ⟨opClsJump ||| cond ||| operand, jt, jf, k⟩

/-- `uint32(x)` of a Go `int`. -/
def u32OfInt (x : Int) : Nat := (x % 4294967296).toNat

/-- `Instruction.Assemble()`; `none` = error. -/
def asm : Instr → Option Raw
  | .loadConstant dst val => assembleLoad dst 4 opAddrModeImmediate val
  | .loadScratch dst n =>
    if n < 0 ∨ n > 15 then none else assembleLoad dst 4 opAddrModeScratch (u32OfInt n)
  | .loadAbsolute off size => assembleLoad regA size opAddrModeAbsolute off
  | .loadIndirect off size => assembleLoad regA size opAddrModeIndirect off
  | .loadMemShift off => assembleLoad regX 1 opAddrModeMemShift off
  | .loadExtension num =>
    if num < 0 ∨ num ≥ -extOffset then none
    else if num = extLen then assembleLoad regA 4 opAddrModePacketLen 0
    else assembleLoad regA 4 opAddrModeAbsolute (u32OfInt (extOffset + num))
  | .storeScratch src n =>
    if n < 0 ∨ n > 15 then none
    else if src = regA then some ⟨opClsStoreA, 0, 0, u32OfInt n⟩
    else if src = regX then some ⟨opClsStoreX, 0, 0, u32OfInt n⟩
    else none
  | .aluOpConstant op val => some ⟨opClsALU ||| opOperandConstant ||| op, 0, 0, val⟩
  | .aluOpX op => some ⟨opClsALU ||| opOperandX ||| op, 0, 0, 0⟩
  | .negateA => some ⟨opClsALU ||| aluOpNeg, 0, 0, 0⟩
  | .jump skip => some ⟨opClsJump ||| opJumpAlways, 0, 0, skip⟩
  | .jumpIf cond val st sf => jumpToRaw cond opOperandConstant val st sf
  | .jumpIfX cond st sf => jumpToRaw cond opOperandX 0 st sf
  | .retA => some ⟨opClsReturn ||| opRetSrcA, 0, 0, 0⟩
  | .retConstant val => some ⟨opClsReturn ||| opRetSrcConstant, 0, 0, val⟩
  | .txa => some ⟨opClsMisc ||| opMiscTXA, 0, 0, 0⟩
  | .tax => some ⟨opClsMisc ||| opMiscTAX, 0, 0, 0⟩
  | .raw r => some r

/-- `Assemble(insts)`: all or nothing. -/
def asmProg : List Instr → Option (List Raw)
  | [] => some []
  | i :: rest =>
    match asm i with
    | none => none
    | some r =>
      match asmProg rest with
      | none => none
      | some rs => some (r :: rs)

/-! ### Disassemble -/

/-- The ten binary operators listed in `Disassemble`'s ALU case. -/
def isALUBinary (op : Nat) : Bool :=
  op == aluOpAdd || op == aluOpSub || op == aluOpMul || op == aluOpDiv || op == aluOpOr ||
  op == aluOpAnd || op == aluOpShiftLeft || op == aluOpShiftRight || op == aluOpMod || op == aluOpXor

/-- `jumpOpToTest(op, skipTrue, skipFalse)` for the four conditional jump ops. -/
def jumpOpToTest (op jt jf : Nat) : Nat × Nat × Nat :=
  if jt = 0 then
    let test :=
      if op = opJumpEqual then jumpNotEqual
      else if op = opJumpGT then jumpLessOrEqual
      else if op = opJumpGE then jumpLessThan
      else if op = opJumpSet then jumpBitsNotSet
      else 0
    (test, jf, 0)
  else
    let test :=
      if op = opJumpEqual then jumpEqual
      else if op = opJumpGT then jumpGreaterThan
      else if op = opJumpGE then jumpGreaterOrEqual
      else if op = opJumpSet then jumpBitsSet
      else 0
    (test, jt, jf)

/-- Load classes of `Disassemble`. -/
def disasmLoad (ri : Raw) : Instr :=
  let reg := ri.op &&& opMaskLoadDest
  let w := ri.op &&& opMaskLoadWidth
  if w = opLoadWidth4 ∨ w = opLoadWidth2 ∨ w = opLoadWidth1 then
    let sz : Int := if w = opLoadWidth4 then 4 else if w = opLoadWidth2 then 2 else 1
    let mode := ri.op &&& opMaskLoadMode
    if mode = opAddrModeImmediate then
      if sz ≠ 4 then .raw ri else .loadConstant reg ri.k
    else if mode = opAddrModeScratch then
      if sz ≠ 4 ∨ ri.k > 15 then .raw ri else .loadScratch reg (ri.k : Int)
    else if mode = opAddrModeAbsolute then
      if ri.k > extThreshold then .loadExtension (((4096 + ri.k) % 4294967296 : Nat) : Int)
      else .loadAbsolute ri.k sz
    else if mode = opAddrModeIndirect then .loadIndirect ri.k sz
    else if mode = opAddrModePacketLen then
      if sz ≠ 4 then .raw ri else .loadExtension extLen
    else if mode = opAddrModeMemShift then .loadMemShift ri.k
    else .raw ri
  else .raw ri

/-- `case opClsStoreA` / `case opClsStoreX` of `Disassemble`. -/
def disasmStore (ri : Raw) (cls reg : Nat) : Instr :=
  if ri.op ≠ cls ∨ ri.k > 15 then .raw ri else .storeScratch reg (ri.k : Int)

/-- `case opClsALU` of `Disassemble`. -/
def disasmALU (ri : Raw) : Instr :=
  let op := ri.op &&& opMaskOperator
  if isALUBinary op then
    let operand := ri.op &&& opMaskOperand
    if operand = opOperandX then .aluOpX op
    else if operand = opOperandConstant then .aluOpConstant op ri.k
    else .raw ri
  else if op = aluOpNeg then .negateA
  else .raw ri

/-- `case opClsJump` of `Disassemble`. -/
def disasmJump (ri : Raw) : Instr :=
  let op := ri.op &&& opMaskOperator
  if op = opJumpAlways then .jump ri.k
  else if op = opJumpEqual ∨ op = opJumpGT ∨ op = opJumpGE ∨ op = opJumpSet then
    let t := jumpOpToTest op ri.jt ri.jf
    let operand := ri.op &&& opMaskOperand
    if operand = opOperandX then .jumpIfX t.1 t.2.1 t.2.2
    else if operand = opOperandConstant then .jumpIf t.1 ri.k t.2.1 t.2.2
    else .raw ri
  else .raw ri

/-- `case opClsReturn` of `Disassemble`. -/
def disasmRet (ri : Raw) : Instr :=
  if ri.op = opClsReturn ||| opRetSrcA then .retA
  else if ri.op = opClsReturn ||| opRetSrcConstant then .retConstant ri.k
  else .raw ri

/-- `case opClsMisc` of `Disassemble`. -/
def disasmMisc (ri : Raw) : Instr :=
  if ri.op = opClsMisc ||| opMiscTAX then .tax
  else if ri.op = opClsMisc ||| opMiscTXA then .txa
  else .raw ri

/-- `RawInstruction.disassemble()` (unexported): decode by opcode class, ignoring the bits and fields the
decoded instruction does not use. The Go `default: panic("unreachable")` is dead code (3 mask bits, 8
cases), so the last class is the `else`. -/
def disasmCore (ri : Raw) : Instr :=
  let cls := ri.op &&& opMaskCls
  if cls = opClsLoadA ∨ cls = opClsLoadX then disasmLoad ri
  else if cls = opClsStoreA then disasmStore ri opClsStoreA regA
  else if cls = opClsStoreX then disasmStore ri opClsStoreX regX
  else if cls = opClsALU then disasmALU ri
  else if cls = opClsJump then disasmJump ri
  else if cls = opClsReturn then disasmRet ri
  else disasmMisc ri

def isRaw : Instr → Bool
  | .raw _ => true
  | _ => false

/-- `RawInstruction.Disassemble()`: the decoded instruction is kept only when assembling it reproduces
`ri`; otherwise `ri` itself is returned. -/
def disasm (ri : Raw) : Instr :=
  let ins := disasmCore ri
  if isRaw ins then ins
  else if asm ins = some ri then ins
  else .raw ri

/-- `Disassemble(raw)`: (insts, allDecoded). -/
def disasmProg (rs : List Raw) : List Instr × Bool :=
  let is := rs.map disasm
  (is, is.all (fun i => match i with | .raw _ => false | _ => true))

/-! ### canonical forms (the region where the two maps are mutually inverse) -/

/-- A conditional jump value is in the disassembler's normal form: a positive
test (`==`, `>`, `>=`, `&`) has a non-zero true-skip, a negated test has a zero
false-skip. -/
def canonJump (cond st sf : Nat) : Bool :=
  if cond = jumpEqual ∨ cond = jumpGreaterThan ∨ cond = jumpGreaterOrEqual ∨ cond = jumpBitsSet
  then st != 0 else sf == 0

/-- Typed instruction values that `Disassemble ∘ Assemble` returns unchanged. -/
def canonTyped : Instr → Bool
  | .loadAbsolute off _ => off ≤ extThreshold
  | .aluOpConstant op _ => isALUBinary op
  | .aluOpX op => isALUBinary op
  | .jumpIf cond _ st sf => canonJump cond st sf
  | .jumpIfX cond st sf => canonJump cond st sf
  | .raw r => isRaw (disasm r)
  | _ => true

/-- Raw instructions that `Disassemble` decodes (the others are returned as they are): the bits
and fields the decoded instruction does not use are zero, loads that are fixed
to a register/width use that encoding, and a load-extension is spelled the way
`LoadExtension.Assemble` spells it. -/
def canonRawFor (r : Raw) (i : Instr) : Bool :=
  let z := r.jt == 0 && r.jf == 0
  match i with
  | .raw _ => true
  | .loadConstant _ _ => r.op < 256 && z
  | .loadScratch _ _ => r.op < 256 && z
  | .loadAbsolute _ _ => r.op < 256 && r.op &&& opMaskLoadDest == 0 && z
  | .loadIndirect _ _ => r.op < 256 && r.op &&& opMaskLoadDest == 0 && z
  | .loadMemShift _ => r.op == 0xb1 && z
  | .loadExtension _ => (r.op == 0x80 && r.k == 0 || r.op == 0x20 && r.k != 0xfffff001) && z
  | .storeScratch _ _ => z
  | .aluOpConstant _ _ => r.op < 256 && z
  | .aluOpX _ => r.op < 256 && r.k == 0 && z
  | .negateA => r.op == 0x84 && r.k == 0 && z
  | .jump _ => r.op == 0x05 && z
  | .jumpIf _ _ _ _ => r.op < 256
  | .jumpIfX _ _ _ => r.op < 256 && r.k == 0
  | .retA => r.k == 0 && z
  | .retConstant _ => z
  | .txa => r.k == 0 && z
  | .tax => r.k == 0 && z

def canonRaw (r : Raw) : Bool := canonRawFor r (disasmCore r)

end NetVerif.Model.Bpf
