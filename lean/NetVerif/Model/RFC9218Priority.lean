import NetVerif.Model.Httpsfv
/-!
Model of `parseRFC9218Priority` (http2/frame.go): the `priority` header / PRIORITY_UPDATE field value
parsed with `httpsfv.ParseDictionary` (model: `Model/Httpsfv.lean`, C56), keeping `u` when it is an integer
in `0..7` and `i` when it is a boolean; the default priority when the field does not parse.
The result is `(urgency, incremental)`; in Go both are `uint8`, the range check on `u` is what keeps
`uint8(u)` from truncating.  Core Lean only.
-/
namespace NetVerif.Model.RFC9218Priority
open NetVerif.Model.Httpsfv

/-- `defaultRFC9218Priority(canUseDefault)` -/
def defaultPrio (canUseDefault : Bool) : Nat × Nat := if canUseDefault then (3, 0) else (3, 1)

/-- the callback handed to `ParseDictionary` -/
def applyMember (p : Nat × Nat) (cb : List Nat × List Nat × List Nat) : Nat × Nat :=
  if cb.1 = [117] then            -- "u"
    match parseInteger cb.2.1 with
    | some u => if 0 ≤ u ∧ u ≤ 7 then (u.toNat, p.2) else p
    | none => p
  else if cb.1 = [105] then       -- "i"
    match parseBoolean cb.2.1 with
    | some b => (p.1, if b then 1 else 0)
    | none => p
  else p

/-- `parseRFC9218Priority(s, canUseDefault)` = ((urgency, incremental), ok) -/
def parsePriority (s : List Nat) (canUseDefault : Bool) : (Nat × Nat) × Bool :=
  match parseDictionary s with
  | none => (defaultPrio canUseDefault, false)
  | some cbs => (cbs.foldl applyMember (defaultPrio canUseDefault), true)

end NetVerif.Model.RFC9218Priority
