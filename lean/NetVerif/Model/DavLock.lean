import NetVerif.Model.DavPath
/-
Models of webdav/lock.go's in-memory LockSystem (`memLS`), property C43.

* `Spec`  — the lock-semantics state machine: a list of locks
  {token#, root, zeroDepth, duration, expiry, held} plus the outstanding Confirm holds.
* `MemLS` — the implementation model: the `byName` tree of nodes with reference counts
  (one node per locked name and per ancestor of a locked name), the `byToken` map, and the
  expiry heap represented as the multiset of nodes with `inHeap = true`
  (`byExpiryIndex >= 0`), with `canCreate` / `create` / `remove` / `walkToRoot` / `lookup` /
  `hold` / `unhold` / `collectExpiredNodes` as in the Go code.

Conventions: resource names are the component lists produced by `slashClean`
(`DavPath.slashCleanComps`; "/" is `[]`); tokens are creation indices 0,1,2,… (the Go code
formats a counter); the clock and durations are integers (seconds); a negative duration is
infinite. `collectExpiredNodes` removes the heap minimum while `!now.Before(expiry)`; since
the order of the removals does not matter it is modelled as removing every heap node with
`expiry ≤ now`. The "inconsistent held state" panics of hold/unhold are unreachable through
the interface when every release func is called at most once and are not modelled
(`release` of an unknown or already released hold is answered `errNoHold` by model and
harness alike, without calling the Go code).
-/
namespace NetVerif.Model.DavLock
open NetVerif.Model.DavPath

abbrev Name := List Bytes

inductive Res where
  | created (tok : Nat)
  | refreshed (root : Name) (zeroDepth : Bool) (duration : Int)
  | ok
  | confirmed (k : Nat)
  | errLocked
  | errNoSuchLock
  | errConfirmationFailed
  | errNoHold
deriving DecidableEq, Repr

inductive Op where
  | create (now : Int) (root : Bytes) (zeroDepth : Bool) (duration : Int)
  | refresh (now : Int) (tok : Option Nat) (duration : Int)
  | unlock (now : Int) (tok : Option Nat)
  | confirm (now : Int) (name0 name1 : Bytes) (toks : List (Option Nat))
  | release (k : Nat)
deriving Repr

/-! ## Specification state machine -/

structure Lock where
  token : Nat
  root : Name
  zeroDepth : Bool
  duration : Int
  expiry : Int
  held : Bool
deriving DecidableEq, Repr

structure Spec where
  locks : List Lock
  gen : Nat
  /-- one entry per successful Confirm: the (token, root) pairs it holds; `none` once released -/
  holds : List (Option (List (Nat × Name)))
deriving Repr

def Spec.init : Spec := { locks := [], gen := 0, holds := [] }

/-- Unheld, finite duration, and the clock has reached the expiry. -/
def Lock.expired (l : Lock) (now : Int) : Bool :=
  !l.held && decide (0 ≤ l.duration) && decide (l.expiry ≤ now)

/-- The resources a lock covers: its root, and everything below it for infinite depth. -/
def Lock.covers (l : Lock) (x : Name) : Bool :=
  l.root == x || (!l.zeroDepth && l.root.isPrefixOf x)

/-- Would a new lock (root, zeroDepth) conflict with `l`? -/
def Lock.conflicts (l : Lock) (root : Name) (zd : Bool) : Bool :=
  l.root == root || (!zd && root.isPrefixOf l.root) || (!l.zeroDepth && l.root.isPrefixOf root)

def Spec.collect (s : Spec) (now : Int) : Spec :=
  { s with locks := s.locks.filter (fun l => !l.expired now) }

def Spec.findTok (s : Spec) (t : Option Nat) : Option Lock :=
  match t with
  | none => none
  | some t => s.locks.find? (fun l => l.token == t)

def newExpiry (now dur old : Int) : Int := if 0 ≤ dur then now + dur else old

def Spec.createCore (s : Spec) (now : Int) (root : Name) (zd : Bool) (dur : Int) : Spec × Res :=
  if s.locks.any (fun l => l.conflicts root zd) then (s, .errLocked)
  else
    ({ s with
        locks := s.locks ++ [{ token := s.gen, root := root, zeroDepth := zd, duration := dur,
                               expiry := newExpiry now dur 0, held := false }]
        gen := s.gen + 1 }, .created s.gen)

def Spec.refreshCore (s : Spec) (now : Int) (tok : Option Nat) (dur : Int) : Spec × Res :=
  match s.findTok tok with
  | none => (s, .errNoSuchLock)
  | some l =>
    if l.held then (s, .errLocked)
    else
      ({ s with locks := s.locks.map (fun x =>
          if x.token == l.token then
            { x with duration := dur, expiry := newExpiry now dur x.expiry } else x) },
       .refreshed l.root l.zeroDepth dur)

def Spec.unlockCore (s : Spec) (tok : Option Nat) : Spec × Res :=
  match s.findTok tok with
  | none => (s, .errNoSuchLock)
  | some l =>
    if l.held then (s, .errLocked)
    else ({ s with locks := s.locks.filter (fun x => !(x.token == l.token)) }, .ok)

/-- `memLS.lookup`: the first condition whose token names an unheld lock covering `name`. -/
def Spec.lookup (s : Spec) (name : Name) : List (Option Nat) → Option Lock
  | [] => none
  | t :: ts =>
    match s.findTok t with
    | some l => if !l.held && l.covers name then some l else s.lookup name ts
    | none => s.lookup name ts

/-- Lookup for one of Confirm's two names: `some none` = name empty (ignored),
`some (some l)` = found, `none` = confirmation failed. -/
def Spec.lookupName (s : Spec) (raw : Bytes) (toks : List (Option Nat)) : Option (Option Lock) :=
  if raw = [] then some none
  else match s.lookup (slashCleanComps raw) toks with
    | some l => some (some l)
    | none => none

def setHeld (locks : List Lock) (toks : List Nat) (v : Bool) : List Lock :=
  locks.map (fun x => if toks.contains x.token then { x with held := v } else x)

def Spec.confirmCore (s : Spec) (n0 n1 : Bytes) (toks : List (Option Nat)) : Spec × Res :=
  match s.lookupName n0 toks with
  | none => (s, .errConfirmationFailed)
  | some l0 =>
    match s.lookupName n1 toks with
    | none => (s, .errConfirmationFailed)
    | some l1 =>
      -- "Don't hold the same node twice."
      let l1 := if l1.map (·.token) = l0.map (·.token) then none else l1
      let hs : List (Nat × Name) := (l1.toList ++ l0.toList).map (fun l => (l.token, l.root))
      ({ s with locks := setHeld s.locks (hs.map (·.1)) true, holds := s.holds ++ [some hs] },
       .confirmed s.holds.length)

def Spec.release (s : Spec) (k : Nat) : Spec × Res :=
  match s.holds[k]? with
  | some (some hs) =>
    ({ s with locks := setHeld s.locks (hs.map (·.1)) false, holds := s.holds.set k none }, .ok)
  | _ => (s, .errNoHold)

/-- Every interface method first runs `collectExpiredNodes(now)`. -/
def Spec.create (s : Spec) (now : Int) (rawRoot : Bytes) (zd : Bool) (dur : Int) : Spec × Res :=
  (s.collect now).createCore now (slashCleanComps rawRoot) zd dur
def Spec.refresh (s : Spec) (now : Int) (tok : Option Nat) (dur : Int) : Spec × Res :=
  (s.collect now).refreshCore now tok dur
def Spec.unlock (s : Spec) (now : Int) (tok : Option Nat) : Spec × Res :=
  (s.collect now).unlockCore tok
def Spec.confirm (s : Spec) (now : Int) (n0 n1 : Bytes) (toks : List (Option Nat)) : Spec × Res :=
  (s.collect now).confirmCore n0 n1 toks

def Spec.step (s : Spec) : Op → Spec × Res
  | .create now root zd dur => s.create now root zd dur
  | .refresh now tok dur => s.refresh now tok dur
  | .unlock now tok => s.unlock now tok
  | .confirm now n0 n1 toks => s.confirm now n0 n1 toks
  | .release k => s.release k

/-- Run a history, collecting the results. -/
def Spec.run (s : Spec) : List Op → Spec × List Res
  | [] => (s, [])
  | op :: ops =>
    let (s1, r) := s.step op
    let (s2, rs) := s1.run ops
    (s2, r :: rs)

/-! ## Implementation model (`memLS`) -/

structure Node where
  name : Name            -- details.Root (always the node's key in byName)
  token : Option Nat     -- none = "" (not explicitly locked)
  refCount : Nat
  zeroDepth : Bool
  duration : Int
  expiry : Int
  held : Bool
  inHeap : Bool          -- byExpiryIndex >= 0
deriving DecidableEq, Repr

structure MemLS where
  byName : List Node
  byToken : List (Nat × Name)
  gen : Nat
  /-- release closures: the nodes (by name) each successful Confirm holds, n1 before n0 -/
  holds : List (Option (List Name))
deriving Repr

def MemLS.init : MemLS := { byName := [], byToken := [], gen := 0, holds := [] }

def findNode (bn : List Node) (a : Name) : Option Node := bn.find? (fun n => n.name == a)

/-- `walkToRoot`: the name, its parent, …, the root `[]`. -/
def walk (name : Name) : List Name :=
  (List.range (name.length + 1)).reverse.map (fun k => name.take k)

def MemLS.canCreate (m : MemLS) (name : Name) (zd : Bool) : Bool :=
  (match findNode m.byName name with
   | none => true
   | some n => n.token.isNone && zd) &&
  (walk name).tail.all (fun a =>
    match findNode m.byName a with
    | none => true
    | some n => !(n.token.isSome && !n.zeroDepth))

def freshNode (a : Name) : Node :=
  { name := a, token := none, refCount := 0, zeroDepth := false, duration := 0, expiry := 0,
    held := false, inHeap := false }

/-- one step of `create`'s walk: make the node if missing, `refCount++`. -/
def incRef (bn : List Node) (a : Name) : List Node :=
  if bn.any (fun n => n.name == a) then
    bn.map (fun n => if n.name == a then { n with refCount := n.refCount + 1 } else n)
  else bn ++ [{ freshNode a with refCount := 1 }]

/-- one step of `remove`'s walk: `refCount--`, delete at zero. -/
def decRef (bn : List Node) (a : Name) : List Node :=
  (bn.map (fun n => if n.name == a then { n with refCount := n.refCount - 1 } else n)).filter
    (fun n => !(n.name == a && n.refCount == 0))

def updNode (bn : List Node) (a : Name) (f : Node → Node) : List Node :=
  bn.map (fun n => if n.name == a then f n else n)

/-- `memLS.remove(n)` for the node named `a`. -/
def MemLS.remove (m : MemLS) (a : Name) : MemLS :=
  match findNode m.byName a with
  | none => m
  | some n =>
    let bt := match n.token with
      | some t => m.byToken.filter (fun p => !(p.1 == t))
      | none => m.byToken
    let bn := updNode m.byName a (fun n => { n with token := none, inHeap := false })
    { m with byToken := bt, byName := (walk a).foldl decRef bn }

/-- `collectExpiredNodes(now)`. -/
def MemLS.collect (m : MemLS) (now : Int) : MemLS :=
  ((m.byName.filter (fun n => n.inHeap && decide (n.expiry ≤ now))).map (·.name)).foldl
    MemLS.remove m

def MemLS.nodeOfToken (m : MemLS) (t : Option Nat) : Option Node :=
  match t with
  | none => none
  | some t =>
    match m.byToken.find? (fun p => p.1 == t) with
    | none => none
    | some p => findNode m.byName p.2

def MemLS.createCore (m : MemLS) (now : Int) (name : Name) (zd : Bool) (dur : Int) : MemLS × Res :=
  if !m.canCreate name zd then (m, .errLocked)
  else
    let bn := (walk name).foldl incRef m.byName
    let bn := updNode bn name (fun n =>
      { n with token := some m.gen, zeroDepth := zd, duration := dur,
               expiry := newExpiry now dur n.expiry, inHeap := decide (0 ≤ dur) })
    ({ m with byName := bn, byToken := m.byToken ++ [(m.gen, name)], gen := m.gen + 1 },
     .created m.gen)

def MemLS.refreshCore (m : MemLS) (now : Int) (tok : Option Nat) (dur : Int) : MemLS × Res :=
  match m.nodeOfToken tok with
  | none => (m, .errNoSuchLock)
  | some n =>
    if n.held then (m, .errLocked)
    else
      ({ m with byName := updNode m.byName n.name (fun x =>
          { x with duration := dur, expiry := newExpiry now dur x.expiry,
                   inHeap := decide (0 ≤ dur) }) },
       .refreshed n.name n.zeroDepth dur)

def MemLS.unlockCore (m : MemLS) (tok : Option Nat) : MemLS × Res :=
  match m.nodeOfToken tok with
  | none => (m, .errNoSuchLock)
  | some n => if n.held then (m, .errLocked) else (m.remove n.name, .ok)

def MemLS.lookup (m : MemLS) (name : Name) : List (Option Nat) → Option Node
  | [] => none
  | t :: ts =>
    match m.nodeOfToken t with
    | none => m.lookup name ts
    | some n =>
      if n.held then m.lookup name ts
      else if name == n.name then some n
      else if n.zeroDepth then m.lookup name ts
      else if n.name.isPrefixOf name then some n
      else m.lookup name ts

def MemLS.lookupName (m : MemLS) (raw : Bytes) (toks : List (Option Nat)) : Option (Option Node) :=
  if raw = [] then some none
  else match m.lookup (slashCleanComps raw) toks with
    | some n => some (some n)
    | none => none

/-- `hold`: held = true, leave the heap. -/
def holdNode (bn : List Node) (a : Name) : List Node :=
  updNode bn a (fun n => { n with held := true, inHeap := false })

/-- `unhold`: held = false, re-enter the heap when the duration is finite. -/
def unholdNode (bn : List Node) (a : Name) : List Node :=
  updNode bn a (fun n => { n with held := false, inHeap := decide (0 ≤ n.duration) })

def MemLS.confirmCore (m : MemLS) (n0 n1 : Bytes) (toks : List (Option Nat)) : MemLS × Res :=
  match m.lookupName n0 toks with
  | none => (m, .errConfirmationFailed)
  | some x0 =>
    match m.lookupName n1 toks with
    | none => (m, .errConfirmationFailed)
    | some x1 =>
      let x1 := if x1.map (·.name) = x0.map (·.name) then none else x1
      -- hold n0 then n1; the release closure unholds n1 then n0
      let hs : List Name := (x1.toList ++ x0.toList).map (·.name)
      ({ m with byName := (x0.toList ++ x1.toList).foldl (fun bn n => holdNode bn n.name) m.byName,
                holds := m.holds ++ [some hs] },
       .confirmed m.holds.length)

def MemLS.release (m : MemLS) (k : Nat) : MemLS × Res :=
  match m.holds[k]? with
  | some (some hs) =>
    ({ m with byName := hs.foldl unholdNode m.byName, holds := m.holds.set k none }, .ok)
  | _ => (m, .errNoHold)

/-- Every interface method first runs `collectExpiredNodes(now)`. -/
def MemLS.create (m : MemLS) (now : Int) (rawRoot : Bytes) (zd : Bool) (dur : Int) : MemLS × Res :=
  (m.collect now).createCore now (slashCleanComps rawRoot) zd dur
def MemLS.refresh (m : MemLS) (now : Int) (tok : Option Nat) (dur : Int) : MemLS × Res :=
  (m.collect now).refreshCore now tok dur
def MemLS.unlock (m : MemLS) (now : Int) (tok : Option Nat) : MemLS × Res :=
  (m.collect now).unlockCore tok
def MemLS.confirm (m : MemLS) (now : Int) (n0 n1 : Bytes) (toks : List (Option Nat)) : MemLS × Res :=
  (m.collect now).confirmCore n0 n1 toks

def MemLS.step (m : MemLS) : Op → MemLS × Res
  | .create now root zd dur => m.create now root zd dur
  | .refresh now tok dur => m.refresh now tok dur
  | .unlock now tok => m.unlock now tok
  | .confirm now n0 n1 toks => m.confirm now n0 n1 toks
  | .release k => m.release k

def MemLS.run (m : MemLS) : List Op → MemLS × List Res
  | [] => (m, [])
  | op :: ops =>
    let (m1, r) := m.step op
    let (m2, rs) := m1.run ops
    (m2, r :: rs)

end NetVerif.Model.DavLock
