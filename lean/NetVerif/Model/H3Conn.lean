import NetVerif.Model.H3Stream
import NetVerif.Model.Qpack
/-
Model of internal/http3/body.go (`bodyReader.Read`, trailers ignored: `trailer == nil`),
of the stream dispatch in conn.go (`handleUnidirectionalStream`, `handleRequestStream`,
`handleStreamError`) and of the control-stream loop of server.go (`handleControlStream`).
-/
namespace NetVerif.Model.H3Conn
open NetVerif.Model.H3Stream NetVerif.Model.Qpack

/-! ### body.go -/

structure Body where
  remain : Int
  err : Option Err        -- the sticky `r.err`
  deriving Repr

/-- Result of one `bodyReader.Read(p)`: bytes put into `p`, returned error (io.EOF = `.eof`). -/
inductive BRes
  | done (bytes : List Nat) (e : Option Err) (b : Body) (s : St)
  | panic
  | hang
  deriving Repr

def bodyFail (b : Body) (s : St) (e : Err) : BRes := .done [] (some e) { b with err := some e } s

/-- The `for r.st.lim < 0` loop: find the next DATA frame (or finish on HEADERS). `none` = fall out
of the loop into the DATA-reading tail with the given state. -/
def bodyNextFrame (H : Huff) (tbl : List (List Nat × List Nat)) (b : Body) :
    Nat → St → Option BRes × St
  | 0, s => (some .hang, s)
  | fuel + 1, s =>
    if s.lim < 0 then
      match readFrameHeader s with
      | .ok ft s1 =>
        if ft = 0 then
          if b.remain ≥ 0 ∧ s1.lim > b.remain then (some (bodyFail b s1 (.strm cMessageError)), s1)
          else (none, s1)
        else if ft = 1 then
          if b.remain > 0 then (some (bodyFail b s1 (.strm cMessageError)), s1) else
          let r := decode H tbl s1
          (match r.final with
           | .ok _ s2 =>
             (match discardFrame s2 with
              | .ok _ s3 => (some (bodyFail b s3 .eof), s3)
              | .err e s3 => (some (bodyFail b s3 e), s3)
              | .panic => (some .panic, s2)
              | .hang => (some .hang, s2))
           | .err e s2 => (some (bodyFail b s2 e), s2)
           | .panic => (some .panic, s1)
           | .hang => (some .hang, s1))
        else
          (match discardUnknownFrame s1 ft with
           | .ok _ s2 => bodyNextFrame H tbl b fuel s2
           | .err e s2 => (some (bodyFail b s2 e), s2)
           | .panic => (some .panic, s1)
           | .hang => (some .hang, s1))
      | .err e s1 =>
        if e = .eof ∧ b.remain > 0 then (some (bodyFail b s1 (.strm cMessageError)), s1)
        else (some (bodyFail b s1 e), s1)
      | .panic => (some .panic, s)
      | .hang => (some .hang, s)
    else (none, s)

/-- `bodyReader.Read(p)` with `len(p) = k`. -/
def bodyRead (H : Huff) (tbl : List (List Nat × List Nat)) (b : Body) (s : St) (k : Nat) : BRes :=
  match b.err with
  | some e => .done [] (some e) b s
  | none =>
    let afterEnd : Option BRes × St :=
      if s.lim = 0 then
        match endFrame s with
        | .ok _ s1 => (none, s1)
        | .err e s1 => (some (bodyFail b s1 e), s1)
        | .panic => (some .panic, s)
        | .hang => (some .hang, s)
      else (none, s)
    match afterEnd with
    | (some r, _) => r
    | (none, s1) =>
      match bodyNextFrame H tbl b (s1.data.length + 2) s1 with
      | (some r, _) => r
      | (none, s2) =>
        let k' := if (k : Int) > s2.lim then s2.lim.toNat else k
        match read s2 k' with
        | .ok (bs, eof) s3 =>
          let b' : Body := { b with remain := if b.remain > 0 then b.remain - bs.length else b.remain }
          if eof then .done bs (some .eof) { b' with err := some .eof } s3 else .done bs none b' s3
        | .err e s3 => .done [] (some e) { b with err := some e } s3
        | .panic => .panic
        | .hang => .hang

/-! ### conn.go -/

/-- What `handleStreamError` does with the stream / connection. -/
inductive ConnRes
  | abort (code : Nat)     -- h.abort(connectionError)
  | closed                 -- CloseRead + CloseWrite
  | reset (code : Nat)     -- CloseRead + Reset(code)
  | panic                  -- nil *quic.Stream dereference
  | hang
  deriving DecidableEq, Repr

/-- `handleStreamError(st, h, err)`; `none` = nil error. -/
def handleStreamError (s : St) (e : Option Err) : ConnRes :=
  match e with
  | some (.conn c) => .abort c
  | none => if s.dead then .panic else .closed
  | some (.strm c) => if s.dead then .panic else .reset c
  | some _ => if s.dead then .panic else .reset cInternalError

/-- The frame loop of `serverConn.handleControlStream` after SETTINGS. Returns the handler's error. -/
def controlLoop : Nat → St → Out Unit
  | 0, _ => .hang
  | fuel + 1, s =>
    match readFrameHeader s with
    | .ok ft s1 =>
      if ft = 3 then .err (.conn cIDError) s1
      else if ft = 7 then .err (.plain cNoError) s1
      else
        (match discardUnknownFrame s1 ft with
         | .ok _ s2 => controlLoop fuel s2
         | .err e s2 => .err e s2
         | .panic => .panic
         | .hang => .hang)
    | .err e s1 => .err e s1
    | .panic => .panic
    | .hang => .hang

/-- `serverConn.handleControlStream`. -/
def handleControlStream (s : St) : Out Unit :=
  match readSettings s with
  | .ok _ s1 => controlLoop (s1.data.length + 2) s1
  | .err e s1 => .err e s1
  | .panic => .panic
  | .hang => .hang

/-- Outcome of a handler as `handleStreamError` sees it: final stream state and error. -/
def finish (o : Out Unit) : ConnRes :=
  match o with
  | .ok _ s => handleStreamError s none
  | .err e s => handleStreamError s (some e)
  | .panic => .panic
  | .hang => .hang

/-- `genericConn.handleUnidirectionalStream` with the server's handlers (fresh connection). -/
def handleUni (s : St) : ConnRes :=
  match readVarint s with
  | .ok stype s1 =>
    if stype = 0 then
      (match handleControlStream s1 with
       | .err .eof s2 => handleStreamError s2 (some (.conn cClosedCriticalStream))
       | .err (.plain c) s2 =>   -- errors.Is(err, errH3FrameError): a frame error is a connection error
         handleStreamError s2 (some (if c = cFrameError then .conn cFrameError else .plain c))
       | .err (.strm c) s2 =>
         handleStreamError s2 (some (if c = cFrameError then .conn cFrameError else .strm c))
       | o => finish o)
    else if stype = 1 then handleStreamError s1 (some (.conn cStreamCreationError))
    else handleStreamError s1 none
  | .err _ _ => .abort cStreamCreationError
  | .panic => .panic
  | .hang => .hang

/-- The harness's request handler: HEADERS frame, QPACK section, then the body to its end in
reads of `k` bytes (see harness/C35). Returns delivered body bytes and the handler's error. -/
def bodyDrain (H : Huff) (tbl : List (List Nat × List Nat)) (k : Nat) :
    Nat → Body → St → List Nat → List Nat × Out Unit
  | 0, _, _, acc => (acc, .hang)
  | fuel + 1, b, s, acc =>
    match bodyRead H tbl b s k with
    | .done bs none b' s' => bodyDrain H tbl k fuel b' s' (acc ++ bs)
    | .done bs (some .eof) _ s' => (acc ++ bs, .ok () s')
    | .done bs (some e) _ s' => (acc ++ bs, .err e s')
    | .panic => (acc, .panic)
    | .hang => (acc, .hang)

def requestHandler (H : Huff) (tbl : List (List Nat × List Nat)) (k : Nat) (s : St) : List Nat × Out Unit :=
  match readFrameHeader s with
  | .ok ft s1 =>
    if ft ≠ 1 then ([], .err (.conn cFrameUnexpected) s1) else
    (match (decode H tbl s1).final with
     | .ok _ s2 =>
       (match endFrame s2 with
        | .ok _ s3 => bodyDrain H tbl k (2 * s3.data.length + 4) ⟨-1, none⟩ s3 []
        | .err e s3 => ([], .err e s3)
        | .panic => ([], .panic)
        | .hang => ([], .hang))
     | .err e s2 => ([], .err e s2)
     | .panic => ([], .panic)
     | .hang => ([], .hang))
  | .err e s1 => ([], .err e s1)
  | .panic => ([], .panic)
  | .hang => ([], .hang)

/-- The frame loop of `serverConn.parseHeader` (server.go): unknown frames before the HEADERS frame
are skipped, then the field section is decoded and the frame ended. The validation of the
decoded fields is not modelled (the tie only feeds it a valid request section). -/
def parseHeaderFrames (H : Huff) (tbl : List (List Nat × List Nat)) : Nat → St → Out Unit
  | 0, _ => .hang
  | fuel + 1, s =>
    match readFrameHeader s with
    | .ok ft s1 =>
      if ft = 1 then
        (match (decode H tbl s1).final with
         | .ok _ s2 => endFrame s2
         | .err e s2 => .err e s2
         | .panic => .panic
         | .hang => .hang)
      else
        (match discardUnknownFrame s1 ft with
         | .ok _ s2 => parseHeaderFrames H tbl fuel s2
         | .err e s2 => .err e s2
         | .panic => .panic
         | .hang => .hang)
    | .err e s1 => .err e s1
    | .panic => .panic
    | .hang => .hang

/-- `genericConn.handleRequestStream` around `requestHandler`. -/
def handleRequest (H : Huff) (tbl : List (List Nat × List Nat)) (k : Nat) (s : St) : List Nat × ConnRes :=
  let r := requestHandler H tbl k s
  (r.1, finish r.2)

end NetVerif.Model.H3Conn
