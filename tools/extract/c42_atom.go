package main

// c42: the perfect-hash atom table of html/atom (table.go) as Lean data:
// hash0, maxAtomLen, table (dense, zero-filled), atomText (bytes), the named
// Atom constants, and the FNV multiplier read out of func fnv (atom.go) after
// checking that fnv still has the shape the model describes.

import (
	"bytes"
	"fmt"
	"go/ast"
	"go/printer"
	"go/token"
	"math/big"
	"path/filepath"
	"strconv"
	"strings"
)

func init() {
	register("c42", func(repo string, args []string) (string, error) {
		p, err := LoadPkg(filepath.Join(repo, "html/atom"), false)
		if err != nil {
			return "", err
		}
		// gen.go is `//go:build ignore` (package main); it must not contribute declarations.
		for name, f := range p.Files {
			if f.Name.Name != "atom" {
				delete(p.Files, name)
			}
		}
		var b strings.Builder
		b.WriteString(Header("HTML atom table.", "html/atom/table.go", "html/atom/atom.go"))
		b.WriteString("namespace NetVerif.Gen.C42\n\n")
		for _, c := range []string{"hash0", "maxAtomLen"} {
			v, err := p.ConstInt(c)
			if err != nil {
				return "", err
			}
			b.WriteString("def " + c + " : Nat := " + v + "\n")
		}
		prime, err := c42FnvPrime(p)
		if err != nil {
			return "", err
		}
		b.WriteString("def fnvPrime : Nat := " + prime + "\n\n")

		// Control flow of the hand-modelled functions, as canonical source text (go/printer, comments
		// stripped). Proofs/C42 states that these are the texts Model/Atom.lean was written from, so any
		// edit to Lookup/match/String/string/fnv breaks a registered theorem until the model is re-validated.
		for _, fn := range []struct{ lean, goName string }{
			{"srcFnv", "fnv"}, {"srcMatch", "match"}, {"srcLookup", "Lookup"},
			{"srcAtomString", "Atom.String"}, {"srcAtomStringUnchecked", "Atom.string"}, {"srcString", "String"}} {
			src, err := c42FuncSource(p, fn.goName)
			if err != nil {
				return "", err
			}
			b.WriteString("def " + fn.lean + " : String := " + strconv.Quote(src) + "\n")
		}
		b.WriteString("\n")

		// table
		tv, err := p.Var("table")
		if err != nil {
			return "", err
		}
		cl, ok := tv.(*ast.CompositeLit)
		if !ok {
			return "", fmt.Errorf("table: initializer is not a composite literal")
		}
		at, ok := cl.Type.(*ast.ArrayType)
		if !ok || at.Len == nil {
			return "", fmt.Errorf("table: not a fixed-size array")
		}
		if id, ok := at.Elt.(*ast.Ident); !ok || id.Name != "Atom" {
			return "", fmt.Errorf("table: element type is not Atom")
		}
		ns, err := p.EvalInt(at.Len)
		if err != nil {
			return "", fmt.Errorf("table length: %w", err)
		}
		n, _ := strconv.Atoi(ns)
		if n <= 0 || n > 1<<20 {
			return "", fmt.Errorf("table length %s out of range", ns)
		}
		tab := make([]string, n)
		set := make([]bool, n)
		for i := range tab {
			tab[i] = "0"
		}
		idx := 0
		for _, el := range cl.Elts {
			val := el
			if kv, ok := el.(*ast.KeyValueExpr); ok {
				ks, err := p.EvalInt(kv.Key)
				if err != nil {
					return "", fmt.Errorf("table key: %w", err)
				}
				idx, _ = strconv.Atoi(ks)
				val = kv.Value
			}
			vs, err := p.EvalInt(val)
			if err != nil {
				return "", fmt.Errorf("table[%d]: %w", idx, err)
			}
			if idx < 0 || idx >= n || set[idx] {
				return "", fmt.Errorf("table: index %d out of range or duplicated", idx)
			}
			tab[idx], set[idx] = vs, true
			idx++
		}
		b.WriteString("def tableLen : Nat := " + ns + "\n")
		b.WriteString("def table : List Nat := [\n")
		for i := 0; i < n; i += 16 {
			j := min(i+16, n)
			b.WriteString("  " + strings.Join(tab[i:j], ", "))
			if j < n {
				b.WriteString(",")
			}
			b.WriteString("\n")
		}
		b.WriteString("]\n\n")

		// atomText
		tc, err := p.Const("atomText")
		if err != nil {
			return "", err
		}
		text, err := p.EvalString(&ast.Ident{Name: "atomText"})
		_ = tc
		if err != nil {
			return "", err
		}
		b.WriteString("def atomText : List Nat := " + LeanBytes(text) + "\n")
		fmt.Fprintf(&b, "def atomTextLen : Nat := %d\n\n", len(text))

		// Little-endian positional encodings of the two big lists (base 256 / base 2^32) so that
		// kernel evaluation can index them with GMP arithmetic; Proofs/C42 proves they equal the lists.
		tn := new(big.Int)
		for i := len(text) - 1; i >= 0; i-- {
			tn.Lsh(tn, 8)
			tn.Or(tn, big.NewInt(int64(text[i])))
		}
		b.WriteString("def atomTextNat : Nat := " + tn.String() + "\n\n")
		bn := new(big.Int)
		for i := n - 1; i >= 0; i-- {
			v, ok := new(big.Int).SetString(tab[i], 10)
			if !ok || v.Sign() < 0 || v.BitLen() > 32 {
				return "", fmt.Errorf("table[%d] = %s is not a uint32", i, tab[i])
			}
			bn.Lsh(bn, 32)
			bn.Or(bn, v)
		}
		b.WriteString("def tableNat : Nat := " + bn.String() + "\n\n")

		// named constants: every const spec of (explicit) type Atom, in source order
		tf, ok := p.Files["table.go"]
		if !ok {
			return "", fmt.Errorf("table.go not found")
		}
		type nc struct{ name, val string }
		var named []nc
		for _, fl := range p.Files {
			for _, d := range fl.Decls {
				gd, ok := d.(*ast.GenDecl)
				if !ok || gd.Tok != token.CONST {
					continue
				}
				for _, s := range gd.Specs {
					vs := s.(*ast.ValueSpec)
					id, ok := vs.Type.(*ast.Ident)
					if !ok || id.Name != "Atom" {
						if fl == tf && vs.Type == nil && len(vs.Values) == 0 {
							return "", fmt.Errorf("table.go: implicit-repeat const %s not understood", vs.Names[0].Name)
						}
						continue
					}
					for _, nm := range vs.Names {
						v, err := p.ConstInt(nm.Name)
						if err != nil {
							return "", err
						}
						named = append(named, nc{nm.Name, v})
					}
				}
			}
		}
		if len(named) == 0 {
			return "", fmt.Errorf("no Atom constants found")
		}
		// deterministic order: files are a map; table.go holds them all today, but sort anyway
		for i := 1; i < len(named); i++ {
			for j := i; j > 0 && named[j-1].name > named[j].name; j-- {
				named[j-1], named[j] = named[j], named[j-1]
			}
		}
		b.WriteString("/-- the named `Atom` constants (Go identifier, value) -/\n")
		b.WriteString("def namedTable : List (String × Nat) := [\n")
		for i, c := range named {
			sep := ","
			if i == len(named)-1 {
				sep = ""
			}
			fmt.Fprintf(&b, "  (%q, %s)%s\n", c.name, c.val, sep)
		}
		b.WriteString("]\n\n")
		b.WriteString("def named : List Nat := [\n")
		for i := 0; i < len(named); i += 16 {
			j := min(i+16, len(named))
			vals := make([]string, 0, 16)
			for _, c := range named[i:j] {
				vals = append(vals, c.val)
			}
			b.WriteString("  " + strings.Join(vals, ", "))
			if j < len(named) {
				b.WriteString(",")
			}
			b.WriteString("\n")
		}
		b.WriteString("]\n\n")
		b.WriteString("end NetVerif.Gen.C42\n")
		return b.String(), nil
	})
}

// c42FuncSource prints one function without comments in gofmt form.
func c42FuncSource(p *Pkg, name string) (string, error) {
	fd, err := p.Func(name)
	if err != nil {
		return "", err
	}
	cp := *fd
	cp.Doc = nil
	var buf bytes.Buffer
	// printing the bare FuncDecl (not the file) drops all comments inside the body as well
	if err := printer.Fprint(&buf, token.NewFileSet(), &cp); err != nil {
		return "", err
	}
	out := buf.String()
	for i := 0; i < len(out); i++ {
		if out[i] >= 0x7f || (out[i] < 0x20 && out[i] != '\n' && out[i] != '\t') {
			return "", fmt.Errorf("%s: non-ASCII byte in source text", name)
		}
	}
	return out, nil
}

// c42FnvPrime checks that func fnv is
//
//	func fnv(h uint32, s []byte) uint32 { for i := range s { h ^= uint32(s[i]); h *= K }; return h }
//
// and returns K.
func c42FnvPrime(p *Pkg) (string, error) {
	fd, err := p.Func("fnv")
	if err != nil {
		return "", err
	}
	bad := func(why string) (string, error) {
		return "", fmt.Errorf("%s: func fnv no longer has the modelled shape (%s)", p.Fset.Position(fd.Pos()), why)
	}
	ps := fd.Type.Params.List
	if len(ps) != 2 || len(ps[0].Names) != 1 || len(ps[1].Names) != 1 {
		return bad("parameters")
	}
	hName, sName := ps[0].Names[0].Name, ps[1].Names[0].Name
	if id, ok := ps[0].Type.(*ast.Ident); !ok || id.Name != "uint32" {
		return bad("h is not uint32")
	}
	if fd.Type.Results == nil || len(fd.Type.Results.List) != 1 {
		return bad("results")
	}
	if id, ok := fd.Type.Results.List[0].Type.(*ast.Ident); !ok || id.Name != "uint32" {
		return bad("result is not uint32")
	}
	if len(fd.Body.List) != 2 {
		return bad("body statements")
	}
	rs, ok := fd.Body.List[0].(*ast.RangeStmt)
	if !ok || rs.Value != nil || rs.Key == nil || rs.Tok != token.DEFINE {
		return bad("range loop")
	}
	iName := ""
	if id, ok := rs.Key.(*ast.Ident); ok {
		iName = id.Name
	}
	if id, ok := rs.X.(*ast.Ident); !ok || id.Name != sName || iName == "" {
		return bad("range operand")
	}
	if len(rs.Body.List) != 2 {
		return bad("loop body")
	}
	a1, ok1 := rs.Body.List[0].(*ast.AssignStmt)
	a2, ok2 := rs.Body.List[1].(*ast.AssignStmt)
	if !ok1 || !ok2 || a1.Tok != token.XOR_ASSIGN || a2.Tok != token.MUL_ASSIGN ||
		len(a1.Lhs) != 1 || len(a2.Lhs) != 1 || len(a1.Rhs) != 1 || len(a2.Rhs) != 1 {
		return bad("loop statements")
	}
	if exprString(a1.Lhs[0]) != hName || exprString(a2.Lhs[0]) != hName {
		return bad("assignment targets")
	}
	// uint32(s[i])
	call, ok := a1.Rhs[0].(*ast.CallExpr)
	if !ok || len(call.Args) != 1 || exprString(call.Fun) != "uint32" {
		return bad("xor operand")
	}
	ix, ok := call.Args[0].(*ast.IndexExpr)
	if !ok || exprString(ix.X) != sName || exprString(ix.Index) != iName {
		return bad("xor operand index")
	}
	k, err := p.EvalInt(a2.Rhs[0])
	if err != nil {
		return bad("multiplier: " + err.Error())
	}
	ret, ok := fd.Body.List[1].(*ast.ReturnStmt)
	if !ok || len(ret.Results) != 1 || exprString(ret.Results[0]) != hName {
		return bad("return")
	}
	return k, nil
}
