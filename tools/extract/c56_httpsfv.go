package main

// c56: internal/httpsfv/httpsfv.go — the byte-class predicates (through the
// byteFunc translator of c55_httpguts.go), the inline byte sets used with
// slices.Contains in consumeKey / consumeToken / consumeByteSequence, and the
// numeric limits compared with `>` in consumeIntegerOrDecimal.

import (
	"fmt"
	"go/ast"
	"go/token"
	"path/filepath"
	"strings"
)

// containsSets lists, in source order, the byte sets S of every
// `slices.Contains([]byte(S) | []byte{…}, x)` call in function name.
func containsSets(p *Pkg, name string) ([]string, error) {
	fd, err := p.Func(name)
	if err != nil {
		return nil, err
	}
	t := &bfun{p: p}
	var out []string
	var bad error
	ast.Inspect(fd.Body, func(n ast.Node) bool {
		c, ok := n.(*ast.CallExpr)
		if !ok {
			return true
		}
		if sel, ok := c.Fun.(*ast.SelectorExpr); ok && exprString(sel) == "slices.Contains" && len(c.Args) == 2 {
			l, ok := t.byteList(c.Args[0])
			if !ok {
				bad = fmt.Errorf("%s: slices.Contains over a non-literal set", name)
				return false
			}
			out = append(out, l)
		}
		return true
	})
	return out, bad
}

// gtLiterals lists, in source order, the integer literals on the right of `>` in function name.
func gtLiterals(p *Pkg, name string) ([]string, error) {
	fd, err := p.Func(name)
	if err != nil {
		return nil, err
	}
	var out []string
	ast.Inspect(fd.Body, func(n ast.Node) bool {
		b, ok := n.(*ast.BinaryExpr)
		if ok && b.Op == token.GTR {
			if v, err := p.EvalInt(b.Y); err == nil {
				out = append(out, v)
			}
		}
		return true
	})
	return out, nil
}

func init() {
	register("c56", func(repo string, args []string) (string, error) {
		p, err := LoadPkg(filepath.Join(repo, "internal/httpsfv"), false)
		if err != nil {
			return "", err
		}
		var b strings.Builder
		b.WriteString(Header("httpsfv byte classes, inline byte sets and numeric limits.", "internal/httpsfv/httpsfv.go"))
		b.WriteString("namespace NetVerif.Gen.C56\n\n")
		for _, fn := range []string{"isLCAlpha", "isAlpha", "isDigit", "isVChar", "isSP", "isTChar"} {
			s, err := byteFunc(p, fn, fn)
			if err != nil {
				return "", err
			}
			b.WriteString(s + "\n")
		}
		for _, e := range []struct{ fn, lean string }{
			{"consumeKey", "keySets"}, {"consumeToken", "tokenSets"}, {"consumeByteSequence", "byteSeqSets"}} {
			sets, err := containsSets(p, e.fn)
			if err != nil {
				return "", err
			}
			b.WriteString("/-- byte sets of the slices.Contains calls in Go `" + e.fn + "` -/\n")
			b.WriteString("def " + e.lean + " : List (List Nat) := [" + strings.Join(sets, ", ") + "]\n\n")
		}
		lits, err := gtLiterals(p, "consumeIntegerOrDecimal")
		if err != nil {
			return "", err
		}
		b.WriteString("/-- right-hand sides of the `>` comparisons in Go `consumeIntegerOrDecimal`, in source order -/\n")
		b.WriteString("def numberLimits : List Nat := [" + strings.Join(lits, ", ") + "]\n\n")
		b.WriteString("end NetVerif.Gen.C56\n")
		return b.String(), nil
	})
}
