package main

// c30: the chunk size of quic/pipe.go — the length argument of the single
// `make([]byte, N)` inside the `New` function of `pipebufPool`.

import (
	"fmt"
	"go/ast"
	"path/filepath"
	"strings"
)

func init() {
	register("c30", func(repo string, args []string) (string, error) {
		p, err := LoadPkg(filepath.Join(repo, "quic"), false)
		if err != nil {
			return "", err
		}
		v, err := p.Var("pipebufPool")
		if err != nil {
			return "", err
		}
		var sizes []string
		var bad error
		ast.Inspect(v, func(n ast.Node) bool {
			ce, ok := n.(*ast.CallExpr)
			if !ok {
				return true
			}
			if id, ok := ce.Fun.(*ast.Ident); ok && id.Name == "make" {
				if len(ce.Args) != 2 {
					bad = fmt.Errorf("pipebufPool: make with %d args (want make([]byte, N))", len(ce.Args))
					return false
				}
				if at, ok := ce.Args[0].(*ast.ArrayType); !ok || at.Len != nil || exprString(at.Elt) != "byte" {
					bad = fmt.Errorf("pipebufPool: make of %s, want []byte", exprString(ce.Args[0]))
					return false
				}
				s, err := p.EvalInt(ce.Args[1])
				if err != nil {
					bad = err
					return false
				}
				sizes = append(sizes, s)
			}
			return true
		})
		if bad != nil {
			return "", bad
		}
		if len(sizes) != 1 {
			return "", fmt.Errorf("pipebufPool initializer: found %d make([]byte, N) calls, want exactly 1", len(sizes))
		}
		// every other use of the chunk length in pipe.go must go through len(pb.b)
		var b strings.Builder
		b.WriteString(Header("Chunk size of the QUIC stream pipe.", "quic/pipe.go"))
		b.WriteString("namespace NetVerif.Gen.C30\n\n")
		b.WriteString("/-- `make([]byte, N)` in `pipebufPool.New` -/\n")
		b.WriteString("def pipebufSize : Nat := " + sizes[0] + "\n\n")
		b.WriteString("end NetVerif.Gen.C30\n")
		return b.String(), nil
	})
}
