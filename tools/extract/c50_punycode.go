package main

// c50: idna/punycode.go — the RFC 3492 parameters, madd / decodeDigit /
// encodeDigit, the pieces of adapt (statements before the loop, loop
// condition, loop body, return expression), the threshold computation that is
// written inline in the digit loops of decode and encode, and the two digit
// expressions of encode. Anything whose shape is not the expected one is an
// error (no Gen file, so the proofs cannot build).

import (
	"fmt"
	"go/ast"
	"go/token"
	"path/filepath"
	"strconv"
	"strings"
)

func init() { register("c50", extractC50) }

// c50CharLits rewrites character literals into integer literals (the shared
// translator only accepts token.INT).
func c50CharLits(n ast.Node) error {
	var err error
	ast.Inspect(n, func(x ast.Node) bool {
		if l, ok := x.(*ast.BasicLit); ok && l.Kind == token.CHAR {
			s, e := strconv.Unquote(l.Value)
			if e != nil || len([]rune(s)) != 1 {
				err = fmt.Errorf("bad char literal %s", l.Value)
				return false
			}
			l.Kind, l.Value = token.INT, strconv.Itoa(int([]rune(s)[0]))
		}
		return true
	})
	return err
}

// c50QuoAssign rewrites `x /= e` into `x = x / e`.
func c50QuoAssign(stmts []ast.Stmt) {
	for _, s := range stmts {
		ast.Inspect(s, func(x ast.Node) bool {
			if a, ok := x.(*ast.AssignStmt); ok && a.Tok == token.QUO_ASSIGN && len(a.Lhs) == 1 {
				a.Tok = token.ASSIGN
				a.Rhs = []ast.Expr{&ast.BinaryExpr{X: a.Lhs[0], Op: token.QUO, Y: &ast.ParenExpr{X: a.Rhs[0]}}}
			}
			return true
		})
	}
}

func c50Frag(p *Pkg, name, params, rt string, locals []string, stmts []ast.Stmt, nret int, src string) (string, error) {
	t := &trans{p: p, o: TransOpts{Num: "Int"}, locals: map[string]bool{}, nret: nret}
	for _, l := range locals {
		t.locals[l] = true
	}
	body := t.block(stmts, "none", 1)
	if t.err != nil {
		return "", t.err
	}
	return fmt.Sprintf("/-- translated from Go: %s (idna/punycode.go) -/\ndef %s %s : Option (%s) :=\n%s\n\n", src, name, params, rt, body), nil
}

func ret(es ...ast.Expr) ast.Stmt { return &ast.ReturnStmt{Results: es} }
func id(n string) ast.Expr       { return &ast.Ident{Name: n} }

// c50DigitLoop finds the `for k := base; ; k += base` loop of fn and returns it.
func c50DigitLoop(fd *ast.FuncDecl) (*ast.ForStmt, error) {
	var found *ast.ForStmt
	ast.Inspect(fd.Body, func(x ast.Node) bool {
		f, ok := x.(*ast.ForStmt)
		if !ok || f.Init == nil || f.Post == nil || f.Cond != nil {
			return true
		}
		in, ok1 := f.Init.(*ast.AssignStmt)
		po, ok2 := f.Post.(*ast.AssignStmt)
		if ok1 && ok2 && in.Tok == token.DEFINE && exprString(in.Lhs[0]) == "k" && exprString(in.Rhs[0]) == "base" &&
			po.Tok == token.ADD_ASSIGN && exprString(po.Lhs[0]) == "k" && exprString(po.Rhs[0]) == "base" {
			found = f
			return false
		}
		return true
	})
	if found == nil {
		return nil, fmt.Errorf("%s: digit loop `for k := base; ; k += base` not found", fd.Name.Name)
	}
	return found, nil
}

// c50Threshold returns the statements `t := k - bias; if k <= bias {...} else if ... {...}` of a digit loop.
func c50Threshold(f *ast.ForStmt, who string) ([]ast.Stmt, error) {
	for i, s := range f.Body.List {
		a, ok := s.(*ast.AssignStmt)
		if ok && a.Tok == token.DEFINE && len(a.Lhs) == 1 && exprString(a.Lhs[0]) == "t" && i+1 < len(f.Body.List) {
			if ifs, ok := f.Body.List[i+1].(*ast.IfStmt); ok {
				return []ast.Stmt{a, ifs, ret(id("t"))}, nil
			}
		}
	}
	return nil, fmt.Errorf("%s: threshold computation not found in the digit loop", who)
}

func extractC50(repo string, args []string) (string, error) {
	p, err := LoadPkg(filepath.Join(repo, "idna"), false)
	if err != nil {
		return "", err
	}
	var b strings.Builder
	b.WriteString(Header("Punycode parameters and straight-line pieces translated from Go.", "idna/punycode.go"))
	b.WriteString("namespace NetVerif.Gen.C50\n\n")
	for _, c := range []string{"base", "damp", "initialBias", "initialN", "skew", "tmax", "tmin"} {
		v, err := p.ConstInt(c)
		if err != nil {
			return "", err
		}
		b.WriteString("def " + c + " : Int := " + v + "\n")
	}
	ace, err := p.Const("acePrefix")
	if err != nil {
		return "", err
	}
	b.WriteString("def acePrefix : List Nat := " + LeanBytes(strings.Trim(ace.ExactString(), "\"")) + "\n\n")

	for _, fn := range []string{"madd", "decodeDigit", "encodeDigit"} {
		fd, err := p.Func(fn)
		if err != nil {
			return "", err
		}
		if err := c50CharLits(fd); err != nil {
			return "", err
		}
		s, err := TranslateFunc(p, fn, TransOpts{LeanName: fn, Num: "Int"})
		if err != nil {
			return "", err
		}
		b.WriteString(s + "\n")
	}

	// adapt: [if firstTime {delta /= damp} else {delta /= 2}] [delta += delta / numPoints] [k := 0] [for cond {body}] [return e]
	fd, err := p.Func("adapt")
	if err != nil {
		return "", err
	}
	st := fd.Body.List
	if len(st) != 5 {
		return "", fmt.Errorf("adapt: expected 5 statements, found %d", len(st))
	}
	loop, ok := st[3].(*ast.ForStmt)
	kinit, ok2 := st[2].(*ast.AssignStmt)
	_, ok3 := st[4].(*ast.ReturnStmt)
	if !ok || !ok2 || !ok3 || loop.Init != nil || loop.Post != nil || loop.Cond == nil ||
		kinit.Tok != token.DEFINE || exprString(kinit.Lhs[0]) != "k" {
		return "", fmt.Errorf("adapt: unexpected shape")
	}
	if v, err := p.EvalInt(kinit.Rhs[0]); err != nil || v != "0" {
		return "", fmt.Errorf("adapt: k is not initialised to 0")
	}
	c50QuoAssign(st)
	c50QuoAssign(loop.Body.List)
	s, err := c50Frag(p, "adaptPre", "(delta numPoints : Int) (firstTime : Bool)", "Int",
		[]string{"delta", "numPoints", "firstTime"}, []ast.Stmt{st[0], st[1], ret(id("delta"))}, 1, "adapt, statements before the loop")
	if err != nil {
		return "", err
	}
	b.WriteString(s)
	t := &trans{p: p, o: TransOpts{Num: "Int"}, locals: map[string]bool{"delta": true, "k": true}}
	cond := t.cond(loop.Cond)
	if t.err != nil {
		return "", t.err
	}
	b.WriteString("/-- translated from Go: adapt, loop condition -/\ndef adaptCond (delta k : Int) : Bool := decide (" + cond + ")\n\n")
	s, err = c50Frag(p, "adaptBody", "(delta k : Int)", "Int × Int", []string{"delta", "k"},
		append(append([]ast.Stmt{}, loop.Body.List...), ret(id("delta"), id("k"))), 2, "adapt, loop body")
	if err != nil {
		return "", err
	}
	b.WriteString(s)
	s, err = c50Frag(p, "adaptRet", "(delta k : Int)", "Int", []string{"delta", "k"}, []ast.Stmt{st[4]}, 1, "adapt, return expression")
	if err != nil {
		return "", err
	}
	b.WriteString(s)

	// thresholds of the two digit loops
	for _, who := range []string{"decode", "encode"} {
		fd, err := p.Func(who)
		if err != nil {
			return "", err
		}
		f, err := c50DigitLoop(fd)
		if err != nil {
			return "", err
		}
		ts, err := c50Threshold(f, who)
		if err != nil {
			return "", err
		}
		name := "threshold" + strings.ToUpper(who[:1]) + who[1:]
		s, err := c50Frag(p, name, "(k bias : Int)", "Int", []string{"k", "bias"}, ts, 1, who+", threshold of the digit loop")
		if err != nil {
			return "", err
		}
		b.WriteString(s)
		if who == "encode" {
			// output = append(output, encodeDigit(t+(q-t)%(base-t))); q = (q - t) / (base - t)
			var digitArg, nextQ ast.Expr
			for _, s := range f.Body.List {
				a, ok := s.(*ast.AssignStmt)
				if !ok || len(a.Lhs) != 1 || len(a.Rhs) != 1 {
					continue
				}
				if exprString(a.Lhs[0]) == "q" && a.Tok == token.ASSIGN {
					nextQ = a.Rhs[0]
				}
				if c, ok := a.Rhs[0].(*ast.CallExpr); ok && exprString(c.Fun) == "append" && len(c.Args) == 2 {
					if c2, ok := c.Args[1].(*ast.CallExpr); ok && exprString(c2.Fun) == "encodeDigit" && len(c2.Args) == 1 {
						digitArg = c2.Args[0]
					}
				}
			}
			if digitArg == nil || nextQ == nil {
				return "", fmt.Errorf("encode: digit expressions not found")
			}
			for _, e := range []struct {
				n string
				e ast.Expr
			}{{"encDigitArg", digitArg}, {"encNextQ", nextQ}} {
				s, err := c50Frag(p, e.n, "(q t : Int)", "Int", []string{"q", "t"}, []ast.Stmt{ret(e.e)}, 1, "encode, digit loop")
				if err != nil {
					return "", err
				}
				b.WriteString(s)
			}
		} else {
			// w, overflow = madd(0, w, base-t): the multiplier
			var mul ast.Expr
			for _, s := range f.Body.List {
				a, ok := s.(*ast.AssignStmt)
				if !ok || len(a.Lhs) != 2 || len(a.Rhs) != 1 || exprString(a.Lhs[0]) != "w" {
					continue
				}
				if c, ok := a.Rhs[0].(*ast.CallExpr); ok && exprString(c.Fun) == "madd" && len(c.Args) == 3 &&
					exprString(c.Args[0]) == "0" && exprString(c.Args[1]) == "w" {
					mul = c.Args[2]
				}
			}
			if mul == nil {
				return "", fmt.Errorf("decode: `w, overflow = madd(0, w, base-t)` not found")
			}
			s, err := c50Frag(p, "decWeightMul", "(t : Int)", "Int", []string{"t"}, []ast.Stmt{ret(mul)}, 1, "decode, weight multiplier")
			if err != nil {
				return "", err
			}
			b.WriteString(s)
		}
	}
	b.WriteString("end NetVerif.Gen.C50\n")
	return b.String(), nil
}
