package main

// c57: the constants and data of xsrftoken/xsrf.go that the C57 model depends on:
// Timeout, the 1-minute grace, the millisecond rounding constants, the issue-time multiplier,
// the comparison operator of the expiry check, ParseInt's base/size, the two format strings and
// clean's replacement pairs (in order). Each is located by the SHAPE of the statement it lives in;
// any other shape fails loudly.

import (
	"fmt"
	"go/ast"
	"go/constant"
	"go/token"
	"path/filepath"
	"strings"
)

var c57TimeUnits = map[string]int64{"Nanosecond": 1, "Microsecond": 1e3, "Millisecond": 1e6, "Second": 1e9,
	"Minute": 60e9, "Hour": 3600e9}

// c57Int evaluates integer constant expressions built from literals (incl. 1e6), * + - and time.<Unit>.
func c57Int(p *Pkg, e ast.Expr) (constant.Value, error) {
	switch x := e.(type) {
	case *ast.BasicLit:
		v := constant.ToInt(constant.MakeFromLiteral(x.Value, x.Kind, 0))
		if v.Kind() != constant.Int {
			return nil, fmt.Errorf("%s: literal %s is not an integer", p.Fset.Position(e.Pos()), x.Value)
		}
		return v, nil
	case *ast.ParenExpr:
		return c57Int(p, x.X)
	case *ast.SelectorExpr:
		if id, ok := x.X.(*ast.Ident); ok && id.Name == "time" {
			if u, ok := c57TimeUnits[x.Sel.Name]; ok {
				return constant.MakeInt64(u), nil
			}
		}
	case *ast.BinaryExpr:
		a, err := c57Int(p, x.X)
		if err != nil {
			return nil, err
		}
		b, err := c57Int(p, x.Y)
		if err != nil {
			return nil, err
		}
		switch x.Op {
		case token.MUL, token.ADD, token.SUB:
			return constant.BinaryOp(a, x.Op, b), nil
		}
	}
	return nil, fmt.Errorf("%s: unsupported constant expression", p.Fset.Position(e.Pos()))
}

func c57IsCall(e ast.Expr, recv, method string) (*ast.CallExpr, bool) {
	c, ok := e.(*ast.CallExpr)
	if !ok {
		return nil, false
	}
	s, ok := c.Fun.(*ast.SelectorExpr)
	if !ok || s.Sel.Name != method {
		return nil, false
	}
	id, ok := s.X.(*ast.Ident)
	return c, ok && id.Name == recv
}

func init() {
	register("c57", func(repo string, args []string) (string, error) {
		p, err := LoadPkg(filepath.Join(repo, "xsrftoken"), false)
		if err != nil {
			return "", err
		}
		pos := func(n ast.Node) string { return p.Fset.Position(n.Pos()).String() }
		var b strings.Builder
		b.WriteString(Header("XSRF token constants and data extracted from Go.", "xsrftoken/xsrf.go"))
		b.WriteString("namespace NetVerif.Gen.C57\n\n")
		emit := func(name string, v constant.Value) {
			b.WriteString("def " + name + " : Int := " + v.ExactString() + "\n")
		}

		// const Timeout = 24 * time.Hour
		var timeout ast.Expr
		for _, f := range p.Files {
			for _, d := range f.Decls {
				if gd, ok := d.(*ast.GenDecl); ok && gd.Tok == token.CONST {
					for _, s := range gd.Specs {
						vs := s.(*ast.ValueSpec)
						for i, n := range vs.Names {
							if n.Name == "Timeout" && i < len(vs.Values) {
								timeout = vs.Values[i]
							}
						}
					}
				}
			}
		}
		if timeout == nil {
			return "", fmt.Errorf("const Timeout not found")
		}
		tv, err := c57Int(p, timeout)
		if err != nil {
			return "", err
		}
		emit("timeoutNs", tv)

		// generateTokenAtTime
		gen, err := p.Func("generateTokenAtTime")
		if err != nil {
			return "", err
		}
		var formats []string
		foundRound := false
		var ierr error
		ast.Inspect(gen.Body, func(n ast.Node) bool {
			switch x := n.(type) {
			case *ast.AssignStmt:
				if len(x.Lhs) == 1 && exprString(x.Lhs[0]) == "milliTime" {
					// (now.UnixNano() + A - B) / C
					q, ok := x.Rhs[0].(*ast.BinaryExpr)
					if !ok || q.Op != token.QUO {
						ierr = fmt.Errorf("%s: milliTime is not a quotient", pos(x))
						return false
					}
					par, ok := q.X.(*ast.ParenExpr)
					if !ok {
						ierr = fmt.Errorf("%s: milliTime numerator shape", pos(x))
						return false
					}
					sub, ok := par.X.(*ast.BinaryExpr)
					if !ok || sub.Op != token.SUB {
						ierr = fmt.Errorf("%s: milliTime numerator shape", pos(x))
						return false
					}
					add, ok := sub.X.(*ast.BinaryExpr)
					if !ok || add.Op != token.ADD {
						ierr = fmt.Errorf("%s: milliTime numerator shape", pos(x))
						return false
					}
					if _, ok := c57IsCall(add.X, "now", "UnixNano"); !ok {
						ierr = fmt.Errorf("%s: milliTime is not based on now.UnixNano()", pos(x))
						return false
					}
					a, e1 := c57Int(p, add.Y)
					bb, e2 := c57Int(p, sub.Y)
					c, e3 := c57Int(p, q.Y)
					for _, e := range []error{e1, e2, e3} {
						if e != nil {
							ierr = e
							return false
						}
					}
					emit("roundAdd", constant.BinaryOp(a, token.SUB, bb))
					emit("roundDiv", c)
					foundRound = true
				}
			case *ast.CallExpr:
				if s, ok := x.Fun.(*ast.SelectorExpr); ok && exprString(s.X) == "fmt" {
					for _, a := range x.Args {
						if l, ok := a.(*ast.BasicLit); ok && l.Kind == token.STRING {
							str, err := p.EvalString(l)
							if err != nil {
								ierr = err
								return false
							}
							formats = append(formats, s.Sel.Name+" "+str)
						}
					}
				}
			}
			return true
		})
		if ierr != nil {
			return "", ierr
		}
		if !foundRound {
			return "", fmt.Errorf("milliTime assignment not found in generateTokenAtTime")
		}
		if len(formats) != 2 || !strings.HasPrefix(formats[0], "Fprintf ") || !strings.HasPrefix(formats[1], "Sprintf ") {
			return "", fmt.Errorf("generateTokenAtTime: expected one Fprintf and one Sprintf format, got %q", formats)
		}
		b.WriteString("def macFormat : List Nat := " + LeanBytes(strings.TrimPrefix(formats[0], "Fprintf ")) + "\n")
		b.WriteString("def tokenFormat : List Nat := " + LeanBytes(strings.TrimPrefix(formats[1], "Sprintf ")) + "\n")

		// clean: s = strings.ReplaceAll(s, old, new) in order
		cl, err := p.Func("clean")
		if err != nil {
			return "", err
		}
		var pairs []string
		for _, st := range cl.Body.List {
			switch x := st.(type) {
			case *ast.AssignStmt:
				c, ok := x.Rhs[0].(*ast.CallExpr)
				if !ok || exprString(c.Fun) != "strings.ReplaceAll" || len(c.Args) != 3 || exprString(c.Args[0]) != "s" || exprString(x.Lhs[0]) != "s" {
					return "", fmt.Errorf("%s: clean: unexpected statement", pos(st))
				}
				o, e1 := p.EvalString(c.Args[1])
				n, e2 := p.EvalString(c.Args[2])
				if e1 != nil || e2 != nil {
					return "", fmt.Errorf("%s: clean: non-constant replacement", pos(st))
				}
				pairs = append(pairs, "("+LeanBytes(o)+", "+LeanBytes(n)+")")
			case *ast.ReturnStmt:
				if len(x.Results) != 1 || exprString(x.Results[0]) != "s" {
					return "", fmt.Errorf("%s: clean: unexpected return", pos(st))
				}
			default:
				return "", fmt.Errorf("%s: clean: unexpected statement %T", pos(st), st)
			}
		}
		b.WriteString("def cleanPairs : List (List Nat × List Nat) := [" + strings.Join(pairs, ", ") + "]\n")

		// validTokenAtTime
		val, err := p.Func("validTokenAtTime")
		if err != nil {
			return "", err
		}
		found := map[string]bool{}
		ast.Inspect(val.Body, func(n ast.Node) bool {
			switch x := n.(type) {
			case *ast.CallExpr:
				switch exprString(x.Fun) {
				case "strconv.ParseInt":
					if len(x.Args) == 3 {
						base, e1 := c57Int(p, x.Args[1])
						bits, e2 := c57Int(p, x.Args[2])
						if e1 == nil && e2 == nil {
							emit("parseBase", base)
							emit("parseBits", bits)
							found["parse"] = true
						}
					}
				case "time.Unix":
					// time.Unix(0, millis*M)
					if len(x.Args) == 2 {
						if m, ok := x.Args[1].(*ast.BinaryExpr); ok && m.Op == token.MUL && exprString(m.X) == "millis" {
							sec, e1 := c57Int(p, x.Args[0])
							mul, e2 := c57Int(p, m.Y)
							if e1 == nil && e2 == nil && constant.Sign(sec) == 0 {
								emit("issueMul", mul)
								found["issue"] = true
							}
						}
					}
				}
				if c, ok := c57IsCall(x, "issueTime", "After"); ok && len(c.Args) == 1 {
					if a, ok := c57IsCall(c.Args[0], "now", "Add"); ok && len(a.Args) == 1 {
						if g, err := c57Int(p, a.Args[0]); err == nil {
							emit("graceNs", g)
							found["grace"] = true
						}
					}
				}
			case *ast.IfStmt:
				if c, ok := x.Cond.(*ast.BinaryExpr); ok {
					if s, ok := c57IsCall(c.X, "now", "Sub"); ok && len(s.Args) == 1 && exprString(s.Args[0]) == "issueTime" && exprString(c.Y) == "timeout" {
						b.WriteString("def expiredOp : List Nat := " + LeanBytes(c.Op.String()) + "\n")
						found["expired"] = true
					}
				}
			}
			return true
		})
		for _, k := range []string{"parse", "issue", "grace", "expired"} {
			if !found[k] {
				return "", fmt.Errorf("validTokenAtTime: %s check not found in its expected shape", k)
			}
		}
		b.WriteString("\nend NetVerif.Gen.C57\n")
		return b.String(), nil
	})
}
