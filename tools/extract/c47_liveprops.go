package main

// c47: the liveProps whitelist of webdav/prop.go (names, whether a find
// function exists, whether it applies to directories) and the status codes used.

import (
	"fmt"
	"go/ast"
	"path/filepath"
	"sort"
	"strings"
)

func init() {
	register("c47", func(repo string, args []string) (string, error) {
		p, err := LoadPkg(filepath.Join(repo, "webdav"), false)
		if err != nil {
			return "", err
		}
		v, err := p.Var("liveProps")
		if err != nil {
			return "", err
		}
		cl, ok := v.(*ast.CompositeLit)
		if !ok {
			return "", fmt.Errorf("liveProps is not a composite literal")
		}
		var rows []string
		for _, e := range cl.Elts {
			kv, ok := e.(*ast.KeyValueExpr)
			if !ok {
				return "", fmt.Errorf("liveProps element is not key:value")
			}
			key, ok := kv.Key.(*ast.CompositeLit)
			if !ok {
				return "", fmt.Errorf("liveProps key is not a composite literal")
			}
			var space, local string
			for _, f := range key.Elts {
				fkv, ok := f.(*ast.KeyValueExpr)
				if !ok {
					return "", fmt.Errorf("liveProps key field without name")
				}
				s, err := p.EvalString(fkv.Value)
				if err != nil {
					return "", err
				}
				switch fkv.Key.(*ast.Ident).Name {
				case "Space":
					space = s
				case "Local":
					local = s
				default:
					return "", fmt.Errorf("unexpected key field")
				}
			}
			val, ok := kv.Value.(*ast.CompositeLit)
			if !ok {
				return "", fmt.Errorf("liveProps value is not a composite literal")
			}
			hasFind, dir := false, false
			for _, f := range val.Elts {
				fkv, ok := f.(*ast.KeyValueExpr)
				if !ok {
					return "", fmt.Errorf("liveProps value field without name")
				}
				switch fkv.Key.(*ast.Ident).Name {
				case "findFn":
					if id, ok := fkv.Value.(*ast.Ident); ok && id.Name == "nil" {
						hasFind = false
					} else {
						hasFind = true
					}
				case "dir":
					id, ok := fkv.Value.(*ast.Ident)
					if !ok || (id.Name != "true" && id.Name != "false") {
						return "", fmt.Errorf("dir is not a boolean literal")
					}
					dir = id.Name == "true"
				default:
					return "", fmt.Errorf("unexpected value field %s", fkv.Key.(*ast.Ident).Name)
				}
			}
			rows = append(rows, fmt.Sprintf("  (%q, %q, %v, %v)", space, local, hasFind, dir))
		}
		sort.Strings(rows)
		var b strings.Builder
		b.WriteString(Header("WebDAV live property whitelist.", "webdav/prop.go"))
		b.WriteString("namespace NetVerif.Gen.C47\n\n/-- (space, local, has find function, applies to directories) -/\n")
		b.WriteString("def liveProps : List (String × String × Bool × Bool) := [\n" + strings.Join(rows, ",\n") + "\n]\n\n")
		for _, c := range []string{"StatusMulti", "StatusUnprocessableEntity", "StatusLocked", "StatusFailedDependency", "StatusInsufficientStorage"} {
			s, err := p.ConstInt(c)
			if err != nil {
				return "", err
			}
			b.WriteString("def " + lowerFirst(c) + " : Nat := " + s + "\n")
		}
		b.WriteString("\nend NetVerif.Gen.C47\n")
		return b.String(), nil
	})
}
