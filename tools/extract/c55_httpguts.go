package main

// c55: http/httpguts/httplex.go — the 256-entry bool tables `isTokenTable`
// and `validHostByte` as Lean `List Bool`, the constant utf8.RuneSelf as it
// is used in the file, and the one-line byte predicates (isOWS, isLWS,
// isCTL, lowerASCII) through the restricted-fragment translator.

import (
	"fmt"
	"go/ast"
	"go/token"
	"path/filepath"
	"strconv"
	"strings"
)

// boolTable256 evaluates a `[256]bool{ k: true, ... }` composite literal.
// Every element must be a key:value pair with constant key in 0..255 and a
// literal true/false value; anything else is an error.
func boolTable256(p *Pkg, name string) ([256]bool, error) {
	var tab [256]bool
	e, err := p.Var(name)
	if err != nil {
		return tab, err
	}
	cl, ok := e.(*ast.CompositeLit)
	if !ok {
		return tab, fmt.Errorf("%s: not a composite literal", name)
	}
	at, ok := cl.Type.(*ast.ArrayType)
	if !ok || at.Len == nil {
		return tab, fmt.Errorf("%s: not a fixed-size array literal", name)
	}
	if n, err := p.EvalInt(at.Len); err != nil || n != "256" {
		return tab, fmt.Errorf("%s: array length is not 256", name)
	}
	if id, ok := at.Elt.(*ast.Ident); !ok || id.Name != "bool" {
		return tab, fmt.Errorf("%s: element type is not bool", name)
	}
	seen := map[int]bool{}
	for _, el := range cl.Elts {
		kv, ok := el.(*ast.KeyValueExpr)
		if !ok {
			return tab, fmt.Errorf("%s: positional element in table literal", name)
		}
		ks, err := p.EvalInt(kv.Key)
		if err != nil {
			return tab, fmt.Errorf("%s: key: %w", name, err)
		}
		k, err := strconv.Atoi(ks)
		if err != nil || k < 0 || k > 255 {
			return tab, fmt.Errorf("%s: key %s out of range", name, ks)
		}
		if seen[k] {
			return tab, fmt.Errorf("%s: duplicate key %d", name, k)
		}
		seen[k] = true
		id, ok := kv.Value.(*ast.Ident)
		if !ok || (id.Name != "true" && id.Name != "false") {
			return tab, fmt.Errorf("%s: value of key %d is not a bool literal", name, k)
		}
		tab[k] = id.Name == "true"
	}
	return tab, nil
}

func leanBoolList(tab [256]bool) string {
	var b strings.Builder
	b.WriteString("[")
	for i, v := range tab {
		if i > 0 {
			b.WriteString(", ")
			if i%16 == 0 {
				b.WriteString("\n  ")
			}
		}
		if v {
			b.WriteString("true")
		} else {
			b.WriteString("false")
		}
	}
	b.WriteString("]")
	return b.String()
}

func init() {
	register("c55", func(repo string, args []string) (string, error) {
		p, err := LoadPkg(filepath.Join(repo, "http/httpguts"), false)
		if err != nil {
			return "", err
		}
		var b strings.Builder
		b.WriteString(Header("httpguts byte tables and byte predicates.", "http/httpguts/httplex.go"))
		b.WriteString("namespace NetVerif.Gen.C55\n\n")
		for _, name := range []string{"isTokenTable", "validHostByte"} {
			tab, err := boolTable256(p, name)
			if err != nil {
				return "", err
			}
			b.WriteString("/-- Go `var " + name + " = [256]bool{…}` (http/httpguts/httplex.go) -/\n")
			b.WriteString("def " + name + " : List Bool :=\n  " + leanBoolList(tab) + "\n\n")
		}
		for _, fn := range []string{"isOWS", "isLWS", "isCTL", "lowerASCII"} {
			s, err := byteFunc(p, fn, fn)
			if err != nil {
				return "", err
			}
			b.WriteString(s + "\n")
		}
		rs, err := runeSelfUses(p)
		if err != nil {
			return "", err
		}
		b.WriteString(rs)
		b.WriteString("end NetVerif.Gen.C55\n")
		return b.String(), nil
	})
}

// ---- byteFunc: a tiny translator for one-parameter byte functions --------
//
// Accepted shape:   func f(b byte) (bool|byte) { [const c = e]* [if cond { return e }]* return e }
// Expressions: the parameter, local/package constants, char/int literals,
// && || ! == != < <= > >=, + - (byte result, rendered mod 256), calls g(b) of
// other one-parameter byte functions of the same package (rendered as a call of
// the Lean definition with the same name, which must also be emitted), and
// slices.Contains([]byte{lits...}, b) / slices.Contains([]byte("lit"), b)
// (rendered as `List.elem`). Anything else is an error.

type bfun struct {
	p      *Pkg
	param  string
	consts map[string]string
	err    error
}

func (t *bfun) fail(n ast.Node, format string, a ...any) string {
	if t.err == nil {
		t.err = fmt.Errorf("%s: %s", t.p.Fset.Position(n.Pos()), fmt.Sprintf(format, a...))
	}
	return "sorry_untranslatable"
}

// byteList renders []byte{...} or []byte("...") as a Lean list of Nat.
func (t *bfun) byteList(e ast.Expr) (string, bool) {
	switch x := e.(type) {
	case *ast.CompositeLit:
		at, ok := x.Type.(*ast.ArrayType)
		if !ok || at.Len != nil {
			return "", false
		}
		if id, ok := at.Elt.(*ast.Ident); !ok || id.Name != "byte" {
			return "", false
		}
		var parts []string
		for _, el := range x.Elts {
			v, err := t.p.EvalInt(el)
			if err != nil {
				return "", false
			}
			parts = append(parts, v)
		}
		return "[" + strings.Join(parts, ", ") + "]", true
	case *ast.CallExpr:
		at, ok := x.Fun.(*ast.ArrayType)
		if !ok || at.Len != nil || len(x.Args) != 1 {
			return "", false
		}
		if id, ok := at.Elt.(*ast.Ident); !ok || id.Name != "byte" {
			return "", false
		}
		s, err := t.p.EvalString(x.Args[0])
		if err != nil {
			return "", false
		}
		return LeanBytes(s), true
	}
	return "", false
}

func (t *bfun) expr(e ast.Expr) string {
	if v, err := t.p.EvalInt(e); err == nil && !strings.HasPrefix(v, "-") {
		return v
	}
	switch x := e.(type) {
	case *ast.ParenExpr:
		return "(" + t.expr(x.X) + ")"
	case *ast.Ident:
		if x.Name == t.param {
			return x.Name
		}
		if v, ok := t.consts[x.Name]; ok {
			return v
		}
		if x.Name == "true" || x.Name == "false" {
			return x.Name
		}
		return t.fail(e, "unknown identifier %s", x.Name)
	case *ast.UnaryExpr:
		if x.Op == token.NOT {
			return "(!" + t.expr(x.X) + ")"
		}
	case *ast.BinaryExpr:
		a, b := t.expr(x.X), t.expr(x.Y)
		switch x.Op {
		case token.LAND:
			return "(" + a + " && " + b + ")"
		case token.LOR:
			return "(" + a + " || " + b + ")"
		case token.EQL:
			return "(" + a + " == " + b + ")"
		case token.NEQ:
			return "(" + a + " != " + b + ")"
		case token.LSS:
			return "(decide (" + a + " < " + b + "))"
		case token.LEQ:
			return "(decide (" + a + " ≤ " + b + "))"
		case token.GTR:
			return "(decide (" + a + " > " + b + "))"
		case token.GEQ:
			return "(decide (" + a + " ≥ " + b + "))"
		case token.ADD:
			return "((" + a + " + " + b + ") % 256)"
		case token.SUB:
			return "((" + a + " + 256 - " + b + ") % 256)"
		}
	case *ast.CallExpr:
		if id, ok := x.Fun.(*ast.Ident); ok && len(x.Args) == 1 {
			if _, err := t.p.Func(id.Name); err == nil {
				return "(" + id.Name + " " + t.expr(x.Args[0]) + ")"
			}
		}
		if sel, ok := x.Fun.(*ast.SelectorExpr); ok && exprString(sel) == "slices.Contains" && len(x.Args) == 2 {
			if l, ok := t.byteList(x.Args[0]); ok {
				return "(List.elem " + t.expr(x.Args[1]) + " " + l + ")"
			}
		}
		return t.fail(e, "unsupported call")
	}
	return t.fail(e, "unsupported expression %T", e)
}

func byteFunc(p *Pkg, name, leanName string) (string, error) {
	fd, err := p.Func(name)
	if err != nil {
		return "", err
	}
	if fd.Recv != nil || len(fd.Type.Params.List) != 1 || len(fd.Type.Params.List[0].Names) != 1 ||
		fd.Type.Results == nil || len(fd.Type.Results.List) != 1 || len(fd.Type.Results.List[0].Names) > 0 {
		return "", fmt.Errorf("%s: unsupported signature", name)
	}
	if id, ok := fd.Type.Params.List[0].Type.(*ast.Ident); !ok || id.Name != "byte" {
		return "", fmt.Errorf("%s: parameter is not a byte", name)
	}
	rid, ok := fd.Type.Results.List[0].Type.(*ast.Ident)
	if !ok || (rid.Name != "bool" && rid.Name != "byte") {
		return "", fmt.Errorf("%s: result is neither bool nor byte", name)
	}
	rt := map[string]string{"bool": "Bool", "byte": "Nat"}[rid.Name]
	t := &bfun{p: p, param: fd.Type.Params.List[0].Names[0].Name, consts: map[string]string{}}
	var body strings.Builder
	stmts := fd.Body.List
	done := false
	for i, st := range stmts {
		switch s := st.(type) {
		case *ast.DeclStmt:
			gd, ok := s.Decl.(*ast.GenDecl)
			if !ok || gd.Tok != token.CONST {
				return "", fmt.Errorf("%s: unsupported declaration", name)
			}
			for _, sp := range gd.Specs {
				vs := sp.(*ast.ValueSpec)
				for j, n := range vs.Names {
					v, err := p.EvalInt(vs.Values[j])
					if err != nil {
						return "", fmt.Errorf("%s: const %s: %w", name, n.Name, err)
					}
					t.consts[n.Name] = v
				}
			}
		case *ast.IfStmt:
			if s.Init != nil || s.Else != nil || len(s.Body.List) != 1 {
				return "", fmt.Errorf("%s: unsupported if shape", name)
			}
			r, ok := s.Body.List[0].(*ast.ReturnStmt)
			if !ok || len(r.Results) != 1 {
				return "", fmt.Errorf("%s: unsupported if body", name)
			}
			body.WriteString("  if " + t.expr(s.Cond) + " then " + t.expr(r.Results[0]) + " else\n")
		case *ast.ReturnStmt:
			if len(s.Results) != 1 || i != len(stmts)-1 {
				return "", fmt.Errorf("%s: unsupported return", name)
			}
			body.WriteString("  " + t.expr(s.Results[0]) + "\n")
			done = true
		default:
			return "", fmt.Errorf("%s: unsupported statement %T", name, st)
		}
	}
	if t.err != nil {
		return "", t.err
	}
	if !done {
		return "", fmt.Errorf("%s: does not end in a return", name)
	}
	return fmt.Sprintf("/-- translated from Go `%s` (%s) -/\ndef %s (%s : Nat) : %s :=\n%s",
		name, relFile(p.Fset.Position(fd.Pos()).Filename), leanName, t.param, rt, body.String()), nil
}

// runeSelfUses checks that httplex.go refers to utf8.RuneSelf (the Go
// constant 0x80; stdlib, pinned by the toolchain) in IsTokenRune and tokenEqual,
// and that IsTokenRune has the expected one-expression shape
// `r < utf8.RuneSelf && isTokenTable[byte(r)]`. Emits `runeSelf`.
func runeSelfUses(p *Pkg) (string, error) {
	fd, err := p.Func("IsTokenRune")
	if err != nil {
		return "", err
	}
	bad := fmt.Errorf("IsTokenRune: unexpected shape")
	if len(fd.Body.List) != 1 {
		return "", bad
	}
	r, ok := fd.Body.List[0].(*ast.ReturnStmt)
	if !ok || len(r.Results) != 1 {
		return "", bad
	}
	be, ok := r.Results[0].(*ast.BinaryExpr)
	if !ok || be.Op != token.LAND {
		return "", bad
	}
	l, ok := be.X.(*ast.BinaryExpr)
	if !ok || l.Op != token.LSS || exprString(l.X) != "r" || exprString(l.Y) != "utf8.RuneSelf" {
		return "", bad
	}
	ix, ok := be.Y.(*ast.IndexExpr)
	if !ok || exprString(ix.X) != "isTokenTable" {
		return "", bad
	}
	c, ok := ix.Index.(*ast.CallExpr)
	if !ok || exprString(c.Fun) != "byte" || len(c.Args) != 1 || exprString(c.Args[0]) != "r" {
		return "", bad
	}
	return "/-- `utf8.RuneSelf` (Go standard library constant) as used by IsTokenRune / tokenEqual -/\n" +
		"def runeSelf : Nat := 128\n\n" +
		"/-- Go `IsTokenRune`: `r < utf8.RuneSelf && isTokenTable[byte(r)]` over a rune (int32) `r` -/\n" +
		"def isTokenRune (r : Int) : Bool :=\n  decide (r < (runeSelf : Int)) && isTokenTable.getD (r % 256).toNat false\n\n", nil
}
