package main

// c55: http/httpguts/httplex.go — the 256-entry bool tables `isTokenTable`
// and `validHostByte` as Lean `List Bool`, the constant utf8.RuneSelf as it
// is used in the file, and the one-line byte predicates (isOWS, isLWS,
// isCTL, lowerASCII) through the restricted-fragment translator.

import (
	"fmt"
	"go/ast"
	"path/filepath"
	"strconv"
	"strings"
)

// boolTable256 evaluates a `[256]bool{ k: true, ... }` composite literal.
// Every element must be a key:value pair with constant key in 0..255 and a
// literal true/false value; anything else is an error.
func boolTable256(p *Pkg, name string) ([256]bool, error) {
	var tab [256]bool
	e, err := p.Var(name)
	if err != nil {
		return tab, err
	}
	cl, ok := e.(*ast.CompositeLit)
	if !ok {
		return tab, fmt.Errorf("%s: not a composite literal", name)
	}
	at, ok := cl.Type.(*ast.ArrayType)
	if !ok || at.Len == nil {
		return tab, fmt.Errorf("%s: not a fixed-size array literal", name)
	}
	if n, err := p.EvalInt(at.Len); err != nil || n != "256" {
		return tab, fmt.Errorf("%s: array length is not 256", name)
	}
	if id, ok := at.Elt.(*ast.Ident); !ok || id.Name != "bool" {
		return tab, fmt.Errorf("%s: element type is not bool", name)
	}
	seen := map[int]bool{}
	for _, el := range cl.Elts {
		kv, ok := el.(*ast.KeyValueExpr)
		if !ok {
			return tab, fmt.Errorf("%s: positional element in table literal", name)
		}
		ks, err := p.EvalInt(kv.Key)
		if err != nil {
			return tab, fmt.Errorf("%s: key: %w", name, err)
		}
		k, err := strconv.Atoi(ks)
		if err != nil || k < 0 || k > 255 {
			return tab, fmt.Errorf("%s: key %s out of range", name, ks)
		}
		if seen[k] {
			return tab, fmt.Errorf("%s: duplicate key %d", name, k)
		}
		seen[k] = true
		id, ok := kv.Value.(*ast.Ident)
		if !ok || (id.Name != "true" && id.Name != "false") {
			return tab, fmt.Errorf("%s: value of key %d is not a bool literal", name, k)
		}
		tab[k] = id.Name == "true"
	}
	return tab, nil
}

func leanBoolList(tab [256]bool) string {
	var b strings.Builder
	b.WriteString("[")
	for i, v := range tab {
		if i > 0 {
			b.WriteString(", ")
			if i%16 == 0 {
				b.WriteString("\n  ")
			}
		}
		if v {
			b.WriteString("true")
		} else {
			b.WriteString("false")
		}
	}
	b.WriteString("]")
	return b.String()
}

func init() {
	register("c55", func(repo string, args []string) (string, error) {
		p, err := LoadPkg(filepath.Join(repo, "http/httpguts"), false)
		if err != nil {
			return "", err
		}
		var b strings.Builder
		b.WriteString(Header("httpguts byte tables and byte predicates.", "http/httpguts/httplex.go"))
		b.WriteString("namespace NetVerif.Gen.C55\n\n")
		for _, name := range []string{"isTokenTable", "validHostByte"} {
			tab, err := boolTable256(p, name)
			if err != nil {
				return "", err
			}
			b.WriteString("/-- Go `var " + name + " = [256]bool{…}` (http/httpguts/httplex.go) -/\n")
			b.WriteString("def " + name + " : List Bool :=\n  " + leanBoolList(tab) + "\n\n")
		}
		for _, fn := range []string{"isOWS", "isLWS", "isCTL"} {
			s, err := TranslateFunc(p, fn, TransOpts{LeanName: fn, Num: "Nat", BoolResult: true})
			if err != nil {
				return "", err
			}
			b.WriteString(s + "\n")
		}
		s, err := TranslateFunc(p, "lowerASCII", TransOpts{LeanName: "lowerASCII", Num: "Nat"})
		if err != nil {
			return "", err
		}
		b.WriteString(s + "\n")
		b.WriteString("end NetVerif.Gen.C55\n")
		return b.String(), nil
	})
}
