package main

// c01: the search index of the HPACK static table (`staticTable.byName`, `staticTable.byNameValue`
// in http2/hpack/static_table.go) and the encoder constants of http2/hpack/encode.go,
// for Proofs/C01.lean (T-tie: the index literal must be "the LAST entry with that name / pair").

import (
	"fmt"
	"go/ast"
	"path/filepath"
	"strings"
)

func init() {
	register("c01", func(repo string, args []string) (string, error) {
		p, err := LoadPkg(filepath.Join(repo, "http2/hpack"), false)
		if err != nil {
			return "", err
		}
		e, err := p.Var("staticTable")
		if err != nil {
			return "", err
		}
		if u, ok := e.(*ast.UnaryExpr); ok {
			e = u.X
		}
		cl, ok := e.(*ast.CompositeLit)
		if !ok {
			return "", fmt.Errorf("staticTable: not a composite literal")
		}
		var byName, byNameValue *ast.CompositeLit
		for _, el := range cl.Elts {
			kv, ok := el.(*ast.KeyValueExpr)
			if !ok {
				return "", fmt.Errorf("staticTable: positional field")
			}
			k, _ := kv.Key.(*ast.Ident)
			if k == nil {
				return "", fmt.Errorf("staticTable: odd key")
			}
			switch k.Name {
			case "byName":
				byName, _ = kv.Value.(*ast.CompositeLit)
			case "byNameValue":
				byNameValue, _ = kv.Value.(*ast.CompositeLit)
			case "ents", "evictCount":
			default:
				return "", fmt.Errorf("staticTable: unknown field %s", k.Name)
			}
		}
		if byName == nil || byNameValue == nil {
			return "", fmt.Errorf("staticTable: byName/byNameValue literal not found")
		}
		var nameRows, pairRows []string
		for i, el := range byName.Elts {
			kv, ok := el.(*ast.KeyValueExpr)
			if !ok {
				return "", fmt.Errorf("byName[%d]: not key:value", i)
			}
			name, err := p.EvalString(kv.Key)
			if err != nil {
				return "", fmt.Errorf("byName[%d]: %w", i, err)
			}
			id, err := p.EvalInt(kv.Value)
			if err != nil {
				return "", fmt.Errorf("byName[%d]: %w", i, err)
			}
			nameRows = append(nameRows, fmt.Sprintf("  (%s, %s)", LeanBytes(name), id))
		}
		for i, el := range byNameValue.Elts {
			kv, ok := el.(*ast.KeyValueExpr)
			if !ok {
				return "", fmt.Errorf("byNameValue[%d]: not key:value", i)
			}
			kc, ok := kv.Key.(*ast.CompositeLit)
			if !ok {
				return "", fmt.Errorf("byNameValue[%d]: key is not a composite literal", i)
			}
			var name, value string
			seen := map[string]bool{}
			for _, f := range kc.Elts {
				fkv, ok := f.(*ast.KeyValueExpr)
				if !ok {
					return "", fmt.Errorf("byNameValue[%d]: positional key field", i)
				}
				fk, _ := fkv.Key.(*ast.Ident)
				if fk == nil {
					return "", fmt.Errorf("byNameValue[%d]: odd key field", i)
				}
				seen[fk.Name] = true
				switch fk.Name {
				case "name":
					name, err = p.EvalString(fkv.Value)
				case "value":
					value, err = p.EvalString(fkv.Value)
				default:
					err = fmt.Errorf("unknown key field %s", fk.Name)
				}
				if err != nil {
					return "", fmt.Errorf("byNameValue[%d]: %w", i, err)
				}
			}
			if !seen["name"] || !seen["value"] {
				return "", fmt.Errorf("byNameValue[%d]: name/value missing", i)
			}
			id, err := p.EvalInt(kv.Value)
			if err != nil {
				return "", fmt.Errorf("byNameValue[%d]: %w", i, err)
			}
			pairRows = append(pairRows, fmt.Sprintf("  ((%s, %s), %s)", LeanBytes(name), LeanBytes(value), id))
		}
		// uint32Max = ^uint32(0): the shared evaluator is untyped (gives -1), so the shape is checked here.
		u32 := ""
		if d, ok := p.consts["uint32Max"]; ok {
			if u, ok := d.expr.(*ast.UnaryExpr); ok && u.Op.String() == "^" {
				if c, ok := u.X.(*ast.CallExpr); ok && len(c.Args) == 1 {
					if id, ok := c.Fun.(*ast.Ident); ok && id.Name == "uint32" {
						if v, err := p.EvalInt(c.Args[0]); err == nil && v == "0" {
							u32 = "4294967295"
						}
					}
				}
			}
			if u32 == "" {
				if v, err := p.ConstInt("uint32Max"); err == nil && !strings.HasPrefix(v, "-") {
					u32 = v
				}
			}
		}
		if u32 == "" {
			return "", fmt.Errorf("const uint32Max: not found or unsupported shape")
		}
		ihts, err := p.ConstInt("initialHeaderTableSize")
		if err != nil {
			return "", err
		}
		var b strings.Builder
		b.WriteString(Header("HPACK static table search index and encoder constants.",
			"http2/hpack/static_table.go", "http2/hpack/encode.go"))
		b.WriteString("namespace NetVerif.Gen.C01\n\n")
		b.WriteString("/-- `staticTable.byName`: name ↦ unique id (= HPACK index, evictCount = 0). -/\n")
		b.WriteString("def byName : List (List Nat × Nat) := [\n" + strings.Join(nameRows, ",\n") + "\n]\n\n")
		b.WriteString("/-- `staticTable.byNameValue`: (name, value) ↦ unique id. -/\n")
		b.WriteString("def byNameValue : List ((List Nat × List Nat) × Nat) := [\n" + strings.Join(pairRows, ",\n") + "\n]\n\n")
		b.WriteString("/-- `const uint32Max` (encode.go). -/\ndef uint32Max : Nat := " + u32 + "\n\n")
		b.WriteString("/-- `const initialHeaderTableSize` (encode.go). -/\ndef initialHeaderTableSize : Nat := " + ihts + "\n")
		b.WriteString("\nend NetVerif.Gen.C01\n")
		return b.String(), nil
	})
}
