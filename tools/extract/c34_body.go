package main

// c34: internal/http3 body.go / server.go / roundtrip.go — the straight-line integer parts of the
// Content-Length accounting, as translated Lean definitions:
//
//	bodyWriter.write   guard of the "longer than specified content length" error, loop accounting
//	bodyWriter.Close   guard of the "shorter than specified content length" error
//	bodyReader.Read    guards of the three H3_MESSAGE_ERROR returns, read clamp, accounting
//	handleRequestStream / RoundTrip   bodyReader-vs-http.NoBody decision, `remain: contentLength`
//	responseWriter     responseCanHaveBody, trimWriteLocked, bodyBuffer.write, the buffering
//	                   condition of Write, defaultBodyBufferCap
//	actualContentLength
//
// The methods contain loops and stream calls the translator does not handle, so the extractor
// locates the statements SYNTACTICALLY (by the error message they guard / the assignment they
// contain), rewrites receiver/selector expressions to plain parameters by exact text
// substitution, and hands the synthesised function to the translator. Any other shape fails loudly.

import (
	"bytes"
	"fmt"
	"go/ast"
	"go/parser"
	"go/printer"
	"path/filepath"
	"strings"
)

func c34Print(p *Pkg, n ast.Node) string {
	var buf bytes.Buffer
	printer.Fprint(&buf, p.Fset, n)
	return buf.String()
}

// c34Norm collapses whitespace runs.
func c34Norm(s string) string { return strings.Join(strings.Fields(s), " ") }

func c34AddSynth(p *Pkg, name, src string) error {
	f, err := parser.ParseFile(p.Fset, "zz_verif_c34_"+name+".go", "package http3\n"+src, 0)
	if err != nil {
		return fmt.Errorf("synthesised %s does not parse: %v\n%s", name, err, src)
	}
	p.Files["zz_verif_c34_"+name+".go"] = f
	return nil
}

// c34Ifs returns the if statements of fn (source order) whose body text contains every marker.
func c34Ifs(p *Pkg, fn string, markers ...string) ([]*ast.IfStmt, error) {
	fd, err := p.Func(fn)
	if err != nil {
		return nil, err
	}
	var out []*ast.IfStmt
	ast.Inspect(fd.Body, func(n ast.Node) bool {
		is, ok := n.(*ast.IfStmt)
		if !ok {
			return true
		}
		// only the statements directly in the body of this `if` (not nested ifs) are inspected
		direct := ""
		for _, st := range is.Body.List {
			if _, nested := st.(*ast.IfStmt); !nested {
				direct += c34Print(p, st) + "\n"
			}
		}
		for _, m := range markers {
			if !strings.Contains(direct, m) {
				return true
			}
		}
		out = append(out, is)
		return true
	})
	return out, nil
}

func c34OneIf(p *Pkg, fn string, markers ...string) (*ast.IfStmt, error) {
	ifs, err := c34Ifs(p, fn, markers...)
	if err != nil {
		return nil, err
	}
	if len(ifs) != 1 {
		return nil, fmt.Errorf("%s: expected exactly one `if` guarding %q, found %d", fn, markers, len(ifs))
	}
	return ifs[0], nil
}

// c34Subst applies exact textual substitutions and fails if one of them does not occur.
func c34Subst(what, s string, pairs ...string) (string, error) {
	for i := 0; i+1 < len(pairs); i += 2 {
		if !strings.Contains(s, pairs[i]) {
			return "", fmt.Errorf("%s: %q does not contain %q", what, s, pairs[i])
		}
		s = strings.ReplaceAll(s, pairs[i], pairs[i+1])
	}
	return s, nil
}

func init() {
	register("c34", func(repo string, args []string) (string, error) {
		p, err := LoadPkg(filepath.Join(repo, "internal/http3"), false)
		if err != nil {
			return "", err
		}
		var b strings.Builder
		b.WriteString(Header("HTTP/3 body length accounting translated from Go.",
			"internal/http3/body.go", "internal/http3/server.go", "internal/http3/roundtrip.go"))
		b.WriteString("namespace NetVerif.Gen.C34\n\n")
		for _, c := range []string{"defaultBodyBufferCap", "frameTypeData", "frameTypeHeaders"} {
			v, err := p.ConstInt(c)
			if err != nil {
				return "", err
			}
			b.WriteString("def " + c + " : Int := " + v + "\n")
		}
		b.WriteString("\n")

		type synth struct {
			name string
			src  string
			o    TransOpts
		}
		var jobs []synth
		add := func(name, src string, o TransOpts) {
			o.LeanName = name
			if o.Num == "" {
				o.Num = "Int"
			}
			jobs = append(jobs, synth{name, src, o})
		}

		// ---- bodyWriter.write
		is, err := c34OneIf(p, "bodyWriter.write", "body longer than specified content length", "return 0, &streamError")
		if err != nil {
			return "", err
		}
		cond, err := c34Subst("bodyWriter.write guard", c34Print(p, is.Cond), "w.remain", "remain")
		if err != nil {
			return "", err
		}
		add("bwTooLong", "func bwTooLong(remain int64, size int64) bool { return "+cond+" }", TransOpts{BoolResult: true})

		is, err = c34OneIf(p, "bodyWriter.write", "w.remain -= int64(n)")
		if err != nil {
			return "", err
		}
		if len(is.Body.List) != 1 || is.Else != nil {
			return "", fmt.Errorf("bodyWriter.write: accounting `if` has an unexpected shape")
		}
		cond, err = c34Subst("bodyWriter.write accounting", c34Print(p, is.Cond), "w.remain", "remain")
		if err != nil {
			return "", err
		}
		add("bwAccount", "func bwAccount(remain int64, n int64) int64 { if "+cond+" { remain -= int64(n) }\n return remain }", TransOpts{})
		// the accounting statement must sit inside the `for _, p := range ps` loop, after `n += n2`
		{
			fd, _ := p.Func("bodyWriter.write")
			loopOK := false
			ast.Inspect(fd.Body, func(n ast.Node) bool {
				if rs, ok := n.(*ast.RangeStmt); ok && c34Print(p, rs.X) == "ps" {
					txt := c34Print(p, rs.Body)
					i1, i2 := strings.Index(txt, "n += n2"), strings.Index(txt, "w.remain -= int64(n)")
					loopOK = i1 >= 0 && i2 > i1
				}
				return true
			})
			if !loopOK {
				return "", fmt.Errorf("bodyWriter.write: `n += n2` … `w.remain -= int64(n)` not found inside `for _, p := range ps`")
			}
		}

		// ---- bodyWriter.Close
		is, err = c34OneIf(p, "bodyWriter.Close", "body shorter than specified content length", "return errors.New")
		if err != nil {
			return "", err
		}
		cond, err = c34Subst("bodyWriter.Close guard", c34Print(p, is.Cond), "w.remain", "remain")
		if err != nil {
			return "", err
		}
		add("bwCloseShort", "func bwCloseShort(remain int64) bool { return "+cond+" }", TransOpts{BoolResult: true})

		// ---- bodyReader.Read
		ifs, err := c34Ifs(p, "bodyReader.Read", "body shorter than content-length", "errH3MessageError")
		if err != nil {
			return "", err
		}
		if len(ifs) != 2 {
			return "", fmt.Errorf("bodyReader.Read: expected two `body shorter than content-length` guards, found %d", len(ifs))
		}
		c0, c1 := c34Print(p, ifs[0].Cond), c34Print(p, ifs[1].Cond)
		if c0 != "err == io.EOF && r.remain > 0" {
			return "", fmt.Errorf("bodyReader.Read: EOF guard is %q", c0)
		}
		c0 = strings.TrimPrefix(c0, "err == io.EOF && ")
		for i, c := range []string{c0, c1} {
			cond, err = c34Subst("bodyReader.Read short guard", c, "r.remain", "remain")
			if err != nil {
				return "", err
			}
			add([]string{"brShortEOF", "brShortTrailer"}[i], fmt.Sprintf("func brShort%d(remain int64) bool { return %s }", i, cond), TransOpts{BoolResult: true})
			jobs[len(jobs)-1].name = fmt.Sprintf("brShort%d", i)
		}
		is, err = c34OneIf(p, "bodyReader.Read", "body longer than content-length", "errH3MessageError")
		if err != nil {
			return "", err
		}
		cond, err = c34Subst("bodyReader.Read long guard", c34Print(p, is.Cond), "r.remain", "remain", "r.st.lim", "lim")
		if err != nil {
			return "", err
		}
		add("brDataTooLong", "func brDataTooLong(remain int64, lim int64) bool { return "+cond+" }", TransOpts{BoolResult: true})

		is, err = c34OneIf(p, "bodyReader.Read", "r.remain -= int64(n)")
		if err != nil {
			return "", err
		}
		if len(is.Body.List) != 1 || is.Else != nil {
			return "", fmt.Errorf("bodyReader.Read: accounting `if` has an unexpected shape")
		}
		cond, err = c34Subst("bodyReader.Read accounting", c34Print(p, is.Cond), "r.remain", "remain")
		if err != nil {
			return "", err
		}
		add("brAccount", "func brAccount(remain int64, n int64) int64 { if "+cond+" { remain -= int64(n) }\n return remain }", TransOpts{})

		is, err = c34OneIf(p, "bodyReader.Read", "p = p[:r.st.lim]")
		if err != nil {
			return "", err
		}
		if len(is.Body.List) != 1 || is.Else != nil {
			return "", fmt.Errorf("bodyReader.Read: clamp `if` has an unexpected shape")
		}
		cond, err = c34Subst("bodyReader.Read clamp", c34Print(p, is.Cond), "int64(len(p))", "plen", "r.st.lim", "lim")
		if err != nil {
			return "", err
		}
		add("brClamp", "func brClamp(plen int64, lim int64) int64 { if "+cond+" { return lim }\n return plen }", TransOpts{})

		// ---- body kind decisions
		is, err = c34OneIf(p, "serverConn.handleRequestStream", "body = &bodyReader{")
		if err != nil {
			return "", err
		}
		if !strings.Contains(c34Norm(c34Print(p, is.Body)), "remain: contentLength,") {
			return "", fmt.Errorf("handleRequestStream: bodyReader is not initialised with remain: contentLength")
		}
		cond, err = c34Subst("handleRequestStream body decision", c34Print(p, is.Cond), "len(reqInfo.Trailer)", "ntrailer")
		if err != nil {
			return "", err
		}
		add("srvHasBody", "func srvHasBody(contentLength int64, ntrailer int) bool { return "+cond+" }", TransOpts{BoolResult: true})

		is, err = c34OneIf(p, "clientConn.RoundTrip", "rt.respBody = &bodyReader{")
		if err != nil {
			return "", err
		}
		if !strings.Contains(c34Norm(c34Print(p, is.Body)), "remain: bodyLen,") {
			return "", fmt.Errorf("RoundTrip: bodyReader is not initialised with remain: bodyLen")
		}
		cond, err = c34Subst("RoundTrip body decision", c34Print(p, is.Cond), "len(trailer)", "ntrailer")
		if err != nil {
			return "", err
		}
		add("cliHasBody", "func cliHasBody(bodyLen int64, ntrailer int) bool { return "+cond+" }", TransOpts{BoolResult: true})
		// bodyLen := contentLength; if <HEAD or 304> { bodyLen = 0 } — directly before the decision
		is2, err := c34OneIf(p, "clientConn.RoundTrip", "bodyLen = 0")
		if err != nil {
			return "", err
		}
		if len(is2.Body.List) != 1 || is2.Else != nil {
			return "", fmt.Errorf("RoundTrip: `bodyLen = 0` guard has an unexpected shape")
		}
		{
			fd, _ := p.Func("clientConn.RoundTrip")
			txt := c34Norm(c34Print(p, fd.Body))
			i0 := strings.Index(txt, "bodyLen := contentLength if "+c34Norm(c34Print(p, is2.Cond))+" { bodyLen = 0 } if "+c34Norm(c34Print(p, is.Cond))+" {")
			if i0 < 0 || strings.Count(txt, "bodyLen =") != 1 || strings.Count(txt, "bodyLen :=") != 1 {
				return "", fmt.Errorf("RoundTrip: `bodyLen := contentLength; if … { bodyLen = 0 }; if bodyLen …` sequence not found")
			}
		}
		cond, err = c34Subst("RoundTrip bodyLen", c34Print(p, is2.Cond), "req.Method == http.MethodHead", "isHead", "http.StatusNotModified", "304")
		if err != nil {
			return "", err
		}
		add("cliBodyLen", "func cliBodyLen(contentLength int64, isHead bool, statusCode int) int64 { bodyLen := contentLength\n if "+cond+" { bodyLen = 0 }\n return bodyLen }", TransOpts{})

		// ---- responseWriter
		fd, err := p.Func("responseWriter.trimWriteLocked")
		if err != nil {
			return "", err
		}
		body, err := c34Subst("trimWriteLocked", c34Print(p, fd.Body),
			"return b, false", "return blen, bodyLenLeft, false",
			"return b[:n], n != len(b)", "return n, bodyLenLeft, n != blen",
			"len(b)", "blen", "rw.bodyLenLeft", "bodyLenLeft")
		if err != nil {
			return "", err
		}
		if strings.Contains(body, "b[") || strings.Contains(body, "rw.") {
			return "", fmt.Errorf("trimWriteLocked: unexpected shape:\n%s", body)
		}
		add("trimWrite", "func trimWrite(bodyLenLeft int, blen int) (int, int, bool) "+body, TransOpts{BoolResult: true})

		fd, err = p.Func("bodyBuffer.write")
		if err != nil {
			return "", err
		}
		if len(fd.Body.List) != 3 {
			return "", fmt.Errorf("bodyBuffer.write: unexpected shape")
		}
		as, ok := fd.Body.List[0].(*ast.AssignStmt)
		if !ok || len(as.Lhs) != 1 || c34Print(p, as.Lhs[0]) != "n" ||
			c34Print(p, fd.Body.List[1]) != "*bb = append(*bb, b[:n]...)" || c34Print(p, fd.Body.List[2]) != "return b[n:]" {
			return "", fmt.Errorf("bodyBuffer.write: unexpected shape")
		}
		rhs, err := c34Subst("bodyBuffer.write", c34Print(p, as.Rhs[0]), "len(b)", "blen", "cap(*bb)", "bbcap", "len(*bb)", "bblen")
		if err != nil {
			return "", err
		}
		add("bbTake", "func bbTake(blen int, bbcap int, bblen int) int { return "+rhs+" }", TransOpts{})

		is, err = c34OneIf(p, "responseWriter.Write", "b = rw.bb.write(b)")
		if err != nil {
			return "", err
		}
		cond, err = c34Subst("responseWriter.Write buffering", c34Print(p, is.Cond),
			"rw.wroteHeader", "wroteHeader", "len(b)", "blen", "cap(rw.bb)", "bbcap", "len(rw.bb)", "bblen")
		if err != nil {
			return "", err
		}
		add("rwBuffers", "func rwBuffers(wroteHeader bool, blen int, bbcap int, bblen int) bool { return "+cond+" }", TransOpts{BoolResult: true})

		fd, err = p.Func("actualContentLength")
		if err != nil {
			return "", err
		}
		body, err = c34Subst("actualContentLength", c34Print(p, fd.Body),
			"req.Body == nil || req.Body == http.NoBody", "noBody", "req.ContentLength", "contentLength")
		if err != nil {
			return "", err
		}
		if strings.Contains(body, "req.") {
			return "", fmt.Errorf("actualContentLength: unexpected shape:\n%s", body)
		}
		add("actualContentLength", "func verifActualContentLength(noBody bool, contentLength int64) int64 "+body, TransOpts{})
		jobs[len(jobs)-1].name = "verifActualContentLength"

		for _, j := range jobs {
			if err := c34AddSynth(p, j.o.LeanName, j.src); err != nil {
				return "", err
			}
			s, err := TranslateFunc(p, j.name, j.o)
			if err != nil {
				return "", fmt.Errorf("%s: %v\n%s", j.o.LeanName, err, j.src)
			}
			b.WriteString(s + "\n")
		}
		s, err := TranslateFunc(p, "responseCanHaveBody", TransOpts{LeanName: "responseCanHaveBody", Num: "Int", BoolResult: true})
		if err != nil {
			return "", err
		}
		b.WriteString(s + "\n")
		b.WriteString("end NetVerif.Gen.C34\n")
		return b.String(), nil
	})
}
