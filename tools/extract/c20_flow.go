package main

// c20: the straight-line integer code of QUIC flow control and stream bounds
// (properties C19, C20, C32) as translated Lean definitions:
//
//	quic/conn_flow.go  connOutflow.setMaxData / avail / consume,
//	                   Conn.handleStreamBytesReceived (usedLimit += n; compare with sentLimit)
//	quic/stream.go     shouldUpdateFlowControl, Stream.checkStreamBounds,
//	                   the autoFlushSize constant expression of Stream.Write,
//	                   streamResetByConnClose
//	quic/errors.go     errFlowControl, errFinalSize
//	quic/sent_val.go   the four sentVal state constants (>> 62)
//	quic/pipe.go       pipebuf chunk size
//
// Two methods return `error` values built from struct literals, which the shared
// translator does not know. They are rewritten SYNTACTICALLY (and shape-checked)
// into integer-returning variants before translation:
//   - `return localTransportError{code: <c>, reason: "..."}` -> `return <value of c>`
//   - `return nil`                                           -> `return 0`
//   - `s.in.end` -> `s.inEnd`;  `c.streams.inflow.<f>` -> `c.<f>`
// Conditions, comparison operators, their order and the constants still come from
// the Go source, so an edited bound or a dropped branch changes the generated file.

import (
	"bytes"
	"fmt"
	"go/ast"
	"go/parser"
	"go/printer"
	"path/filepath"
	"regexp"
	"strings"
)

func init() {
	register("c20", func(repo string, args []string) (string, error) {
		p, err := LoadPkg(filepath.Join(repo, "quic"), false)
		if err != nil {
			return "", err
		}
		var b strings.Builder
		b.WriteString(Header("QUIC flow-control and stream-bounds arithmetic translated from Go.",
			"quic/conn_flow.go", "quic/stream.go", "quic/errors.go", "quic/sent_val.go", "quic/pipe.go"))
		b.WriteString("namespace NetVerif.Gen.C20\n\n")

		for _, c := range []string{"errFlowControl", "errFinalSize", "streamResetByConnClose",
			"smallestMaxDatagramSize", "connIDLen", "aeadOverhead"} {
			v, err := p.ConstInt(c)
			if err != nil {
				return "", err
			}
			b.WriteString("def " + c + " : Int := " + v + "\n")
		}
		// sentVal states: constants are k << 62; emit k.
		for _, c := range []string{"sentValUnset", "sentValUnsent", "sentValSent", "sentValReceived"} {
			cv, err := p.Const(c)
			if err != nil {
				return "", err
			}
			s := cv.ExactString()
			var n uint64
			if _, err := fmt.Sscan(s, &n); err != nil {
				return "", fmt.Errorf("%s: %v", c, err)
			}
			if n&(1<<62-1) != 0 {
				return "", fmt.Errorf("%s = %s is not a multiple of 2^62", c, s)
			}
			b.WriteString(fmt.Sprintf("def %sState : Nat := %d\n", c, n>>62))
		}
		// autoFlushSize: the const declared inside Stream.Write.
		afs, err := c20LocalConst(p, "Stream.Write", "autoFlushSize")
		if err != nil {
			return "", err
		}
		b.WriteString("def autoFlushSize : Int := " + afs + "\n")
		// pipe chunk size
		cs, err := c20ChunkSize(p)
		if err != nil {
			return "", err
		}
		b.WriteString("def pipebufSize : Nat := " + cs + "\n\n")

		// --- synthesised integer-returning variants
		if err := c20SynthErrFunc(p, "Stream.checkStreamBounds", "s", "Stream", "verifCheckStreamBounds",
			[][2]string{{"s.in.end", "s.inEnd"}}); err != nil {
			return "", err
		}
		if err := c20SynthErrFunc(p, "Conn.handleStreamBytesReceived", "c", "Conn", "verifBytesReceived",
			[][2]string{{"c.streams.inflow.usedLimit", "c.usedLimit"}, {"c.streams.inflow.sentLimit", "c.sentLimit"}}); err != nil {
			return "", err
		}

		type job struct {
			fn string
			o  TransOpts
		}
		jobs := []job{
			{"connOutflow.setMaxData", TransOpts{LeanName: "setMaxData", Num: "Int", Fields: []string{"max"}, ReturnFields: true}},
			{"connOutflow.avail", TransOpts{LeanName: "avail", Num: "Int", Fields: []string{"max", "used"}}},
			{"connOutflow.consume", TransOpts{LeanName: "consume", Num: "Int", Fields: []string{"used"}, ReturnFields: true}},
			{"shouldUpdateFlowControl", TransOpts{LeanName: "shouldUpdateFlowControl", Num: "Int", BoolResult: true}},
			{"Stream.verifCheckStreamBounds", TransOpts{LeanName: "checkStreamBounds", Num: "Int",
				Fields: []string{"inwin", "insize", "inEnd"}, ParamTypes: map[string]string{"fin": "Bool"}}},
			{"Conn.verifBytesReceived", TransOpts{LeanName: "bytesReceived", Num: "Int",
				Fields: []string{"usedLimit", "sentLimit"}, ReturnFields: true}},
		}
		for _, j := range jobs {
			s, err := TranslateFunc(p, j.fn, j.o)
			if err != nil {
				return "", err
			}
			b.WriteString(s + "\n")
		}
		b.WriteString("end NetVerif.Gen.C20\n")
		return b.String(), nil
	})
}

func c20Print(p *Pkg, n ast.Node) string {
	var buf bytes.Buffer
	printer.Fprint(&buf, p.Fset, n)
	return buf.String()
}

var c20ErrLit = regexp.MustCompile(`return localTransportError\{\s*code:\s*(\w+),\s*reason:\s*"[^"]*",?\s*\}`)

// c20SynthErrFunc adds `func (<recv> *<typ>) <newName>(<params>) int64` whose body is the
// body of fn with error results replaced by their integer codes.
func c20SynthErrFunc(p *Pkg, fn, recv, typ, newName string, renames [][2]string) error {
	fd, err := p.Func(fn)
	if err != nil {
		return err
	}
	if fd.Type.Results == nil || len(fd.Type.Results.List) != 1 || c20Print(p, fd.Type.Results.List[0].Type) != "error" {
		return fmt.Errorf("%s: expected a single `error` result", fn)
	}
	body := c20Print(p, fd.Body)
	var bad error
	body = c20ErrLit.ReplaceAllStringFunc(body, func(m string) string {
		sub := c20ErrLit.FindStringSubmatch(m)
		v, err := p.ConstInt(sub[1])
		if err != nil {
			bad = err
			return m
		}
		return "return " + v
	})
	if bad != nil {
		return bad
	}
	body = strings.ReplaceAll(body, "return nil", "return 0")
	for _, r := range renames {
		body = strings.ReplaceAll(body, r[0], r[1])
	}
	// `end` is a Lean keyword: rename the Go identifier.
	endRe := regexp.MustCompile(`\bend\b`)
	body = endRe.ReplaceAllString(body, "endOff")
	if strings.Contains(body, "localTransportError") || strings.Contains(body, "nil") {
		return fmt.Errorf("%s: unexpected shape after rewriting error results:\n%s", fn, body)
	}
	params := c20Print(p, fd.Type.Params)
	_ = params
	var ps []string
	for _, f := range fd.Type.Params.List {
		for _, n := range f.Names {
			nm := n.Name
			if nm == "end" {
				nm = "endOff"
			}
			ps = append(ps, nm+" "+c20Print(p, f.Type))
		}
	}
	src := "func (" + recv + " *" + typ + ") " + newName + "(" + strings.Join(ps, ", ") + ") int64 " + body + "\n"
	f, err := parser.ParseFile(p.Fset, "zz_verif_c20_"+newName+".go", "package quic\n"+src, 0)
	if err != nil {
		return fmt.Errorf("synthesised %s does not parse: %v\n%s", newName, err, src)
	}
	p.Files["zz_verif_c20_"+newName+".go"] = f
	return nil
}

// c20LocalConst evaluates `const <name> = <expr>` declared inside function fn.
func c20LocalConst(p *Pkg, fn, name string) (string, error) {
	fd, err := p.Func(fn)
	if err != nil {
		return "", err
	}
	var found ast.Expr
	n := 0
	ast.Inspect(fd.Body, func(x ast.Node) bool {
		if vs, ok := x.(*ast.ValueSpec); ok {
			for i, id := range vs.Names {
				if id.Name == name && i < len(vs.Values) {
					found = vs.Values[i]
					n++
				}
			}
		}
		return true
	})
	if n != 1 {
		return "", fmt.Errorf("%s: found %d declarations of %s, want 1", fn, n, name)
	}
	return p.EvalInt(found)
}

// c20ChunkSize: the N of the single make([]byte, N) in pipebufPool.
func c20ChunkSize(p *Pkg) (string, error) {
	v, err := p.Var("pipebufPool")
	if err != nil {
		return "", err
	}
	var sizes []string
	var bad error
	ast.Inspect(v, func(n ast.Node) bool {
		ce, ok := n.(*ast.CallExpr)
		if !ok {
			return true
		}
		if id, ok := ce.Fun.(*ast.Ident); ok && id.Name == "make" && len(ce.Args) == 2 {
			s, err := p.EvalInt(ce.Args[1])
			if err != nil {
				bad = err
				return false
			}
			sizes = append(sizes, s)
		}
		return true
	})
	if bad != nil {
		return "", bad
	}
	if len(sizes) != 1 {
		return "", fmt.Errorf("pipebufPool: found %d make calls, want 1", len(sizes))
	}
	return sizes[0], nil
}
