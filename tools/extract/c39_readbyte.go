package main

// c39: the arithmetic of html.Tokenizer.readByte (html/token.go): refill
// guard, buffer-growth rule, compaction, increment + maxBuf test, and the
// initial capacity in NewTokenizerFragment. The function is not straight-line
// integer code (slices, reader), so this extractor walks the statement list,
// insists on the exact statement shapes it knows, and renders only the integer
// expressions. Any other shape is an error.

import (
	"bytes"
	"fmt"
	"go/ast"
	"go/printer"
	"go/token"
	"path/filepath"
	"strings"
)

func c39src(p *Pkg, n ast.Node) string {
	var b bytes.Buffer
	printer.Fprint(&b, p.Fset, n)
	return strings.Join(strings.Fields(b.String()), " ")
}

// c39expr renders an integer/boolean expression over the tokenizer counters.
func c39expr(p *Pkg, e ast.Expr) (string, error) {
	switch x := e.(type) {
	case *ast.ParenExpr:
		return c39expr(p, x.X)
	case *ast.BasicLit:
		if x.Kind == token.INT {
			return x.Value, nil
		}
	case *ast.Ident:
		switch x.Name {
		case "c", "d":
			return x.Name, nil
		}
	case *ast.SelectorExpr:
		switch c39src(p, x) {
		case "z.raw.end":
			return "rawEnd", nil
		case "z.raw.start":
			return "rawStart", nil
		case "z.maxBuf":
			return "maxBuf", nil
		}
	case *ast.CallExpr:
		if c39src(p, x) == "len(z.buf)" {
			return "bufLen", nil
		}
	case *ast.BinaryExpr:
		a, err := c39expr(p, x.X)
		if err != nil {
			return "", err
		}
		b, err := c39expr(p, x.Y)
		if err != nil {
			return "", err
		}
		op := map[token.Token]string{token.ADD: "+", token.SUB: "-", token.MUL: "*", token.GTR: ">", token.GEQ: "≥",
			token.LSS: "<", token.LEQ: "≤", token.EQL: "=", token.NEQ: "≠", token.LAND: "∧", token.LOR: "∨"}[x.Op]
		if op == "" {
			return "", fmt.Errorf("unsupported operator %s", x.Op)
		}
		return "(" + a + " " + op + " " + b + ")", nil
	}
	return "", fmt.Errorf("unsupported expression %q", c39src(p, e))
}

func init() {
	register("c39", func(repo string, args []string) (string, error) {
		p, err := LoadPkg(filepath.Join(repo, "html"), false)
		if err != nil {
			return "", err
		}
		fd, err := p.Func("Tokenizer.readByte")
		if err != nil {
			return "", err
		}
		fail := func(format string, a ...any) (string, error) {
			return "", fmt.Errorf("readByte: "+format, a...)
		}
		body := fd.Body.List
		if len(body) != 5 {
			return fail("expected 5 top-level statements, got %d", len(body))
		}
		// 0: if z.raw.end >= len(z.buf) { refill }
		ifRefill, ok := body[0].(*ast.IfStmt)
		if !ok || ifRefill.Else != nil || ifRefill.Init != nil {
			return fail("statement 0 is not a plain if")
		}
		refillCond, err := c39expr(p, ifRefill.Cond)
		if err != nil {
			return fail("%v", err)
		}
		// 1..4: x := z.buf[z.raw.end]; z.raw.end++; if maxBuf test {...}; return x
		if s := c39src(p, body[1]); s != "x := z.buf[z.raw.end]" {
			return fail("statement 1 is %q", s)
		}
		if s := c39src(p, body[2]); s != "z.raw.end++" {
			return fail("statement 2 is %q", s)
		}
		ifMax, ok := body[3].(*ast.IfStmt)
		if !ok || ifMax.Else != nil || ifMax.Init != nil {
			return fail("statement 3 is not a plain if")
		}
		if s := c39src(p, ifMax.Body); s != "{ z.err = ErrBufferExceeded return 0 }" {
			return fail("maxBuf branch body is %q", s)
		}
		exceeded, err := c39expr(p, ifMax.Cond)
		if err != nil {
			return fail("%v", err)
		}
		if s := c39src(p, body[4]); s != "return x" {
			return fail("statement 4 is %q", s)
		}
		// inside the refill branch
		var cDef, dDef, growCond, growLen, growCap, compact string
		nGrow := 0
		for _, st := range ifRefill.Body.List {
			src := c39src(p, st)
			switch x := st.(type) {
			case *ast.AssignStmt:
				switch {
				case src == "c := cap(z.buf)":
					cDef = src
				case strings.HasPrefix(src, "d := "):
					if dDef, err = c39expr(p, x.Rhs[0]); err != nil {
						return fail("%v", err)
					}
				case strings.HasPrefix(src, "z.raw.start, z.raw.end, z.buf = "):
					if src != "z.raw.start, z.raw.end, z.buf = 0, d, buf1[:d]" {
						return fail("compaction is %q", src)
					}
					compact = "(0, d)"
				}
			case *ast.IfStmt:
				if !strings.Contains(src, "make([]byte") {
					continue
				}
				nGrow++
				if growCond, err = c39expr(p, x.Cond); err != nil {
					return fail("%v", err)
				}
				if len(x.Body.List) != 1 {
					return fail("growth branch has %d statements", len(x.Body.List))
				}
				as, ok := x.Body.List[0].(*ast.AssignStmt)
				if !ok || len(as.Rhs) != 1 || c39src(p, as.Lhs[0]) != "buf1" {
					return fail("growth branch is %q", c39src(p, x.Body))
				}
				call, ok := as.Rhs[0].(*ast.CallExpr)
				if !ok || len(call.Args) != 3 || c39src(p, call.Fun) != "make" || c39src(p, call.Args[0]) != "[]byte" {
					return fail("growth allocation is %q", c39src(p, as.Rhs[0]))
				}
				if growLen, err = c39expr(p, call.Args[1]); err != nil {
					return fail("%v", err)
				}
				if growCap, err = c39expr(p, call.Args[2]); err != nil {
					return fail("%v", err)
				}
				if els := c39src(p, x.Else); els != "{ buf1 = z.buf[:d] }" {
					return fail("non-growth branch is %q", els)
				}
			}
		}
		if cDef == "" || dDef == "" || compact == "" || nGrow != 1 {
			return fail("refill branch shape not recognised (c=%q d=%q compact=%q grow=%d)", cDef, dDef, compact, nGrow)
		}
		// initial capacity: buf: make([]byte, 0, N) in NewTokenizerFragment
		nf, err := p.Func("NewTokenizerFragment")
		if err != nil {
			return "", err
		}
		initCap := ""
		ast.Inspect(nf, func(n ast.Node) bool {
			kv, ok := n.(*ast.KeyValueExpr)
			if !ok || c39src(p, kv.Key) != "buf" {
				return true
			}
			if call, ok := kv.Value.(*ast.CallExpr); ok && len(call.Args) == 3 && c39src(p, call.Fun) == "make" && c39src(p, call.Args[1]) == "0" {
				if v, err := p.EvalInt(call.Args[2]); err == nil {
					initCap = v
				}
			}
			return true
		})
		if initCap == "" {
			return "", fmt.Errorf("NewTokenizerFragment: initial buffer capacity not found")
		}
		var b strings.Builder
		b.WriteString(Header("Arithmetic of html.Tokenizer.readByte.", "html/token.go"))
		b.WriteString("namespace NetVerif.Gen.C39\n\n")
		b.WriteString("def initCap : Nat := " + initCap + "\n")
		b.WriteString("/-- guard of the refill branch -/\ndef refillCond (rawEnd bufLen : Nat) : Bool := decide " + refillCond + "\n")
		b.WriteString("/-- live bytes of the current token -/\ndef dOf (rawStart rawEnd : Nat) : Nat := " + dDef + "\n")
		b.WriteString("/-- allocate a new buffer? (c = cap(z.buf)) -/\ndef growCond (c d : Nat) : Bool := decide " + growCond + "\n")
		b.WriteString("def growLen (c d : Nat) : Nat := " + growLen + "\n")
		b.WriteString("def growCap (c d : Nat) : Nat := " + growCap + "\n")
		b.WriteString("/-- (z.raw.start, z.raw.end) after compaction -/\ndef compact (d : Nat) : Nat × Nat := " + compact + "\n")
		b.WriteString("/-- the maxBuf test, evaluated after `z.raw.end++` -/\ndef exceededCond (maxBuf rawStart rawEnd : Nat) : Bool := decide " + exceeded + "\n")
		b.WriteString("\nend NetVerif.Gen.C39\n")
		return b.String(), nil
	})
}
