package main

// c33: the QPACK static table (internal/http3/qpack_static.go), the HPACK
// Huffman code (http2/hpack/tables.go) that QPACK strings use, and the
// http3 error-code constants the decoder returns, as Lean data.
// c35: frame/stream type constants, error codes, the case list of
// discardUnknownFrame and the reserved-setting list of readSettings.

import (
	"fmt"
	"go/ast"
	"path/filepath"
	"strings"
)

func c33EntryTable(p *Pkg, name string) ([][2]string, error) {
	tv, err := p.Var(name)
	if err != nil {
		return nil, err
	}
	cl, ok := tv.(*ast.CompositeLit)
	if !ok {
		return nil, fmt.Errorf("%s: initializer is not a composite literal", name)
	}
	at, ok := cl.Type.(*ast.ArrayType)
	if !ok {
		return nil, fmt.Errorf("%s: not an array", name)
	}
	if id, ok := at.Elt.(*ast.Ident); !ok || id.Name != "tableEntry" {
		return nil, fmt.Errorf("%s: element type is not tableEntry", name)
	}
	var out [][2]string
	for i, e := range cl.Elts {
		val := e
		if kv, ok := e.(*ast.KeyValueExpr); ok {
			k, err := p.EvalInt(kv.Key)
			if err != nil {
				return nil, fmt.Errorf("%s[%d]: key: %w", name, i, err)
			}
			if k != fmt.Sprint(i) {
				return nil, fmt.Errorf("%s: element %d carries key %s (entries must be dense and in order)", name, i, k)
			}
			val = kv.Value
		}
		ecl, ok := val.(*ast.CompositeLit)
		if !ok || len(ecl.Elts) != 2 {
			return nil, fmt.Errorf("%s[%d]: not a {name, value} literal", name, i)
		}
		var nv [2]string
		for j, x := range ecl.Elts {
			if kv, ok := x.(*ast.KeyValueExpr); ok {
				id, ok := kv.Key.(*ast.Ident)
				if !ok || (j == 0 && id.Name != "name") || (j == 1 && id.Name != "value") {
					return nil, fmt.Errorf("%s[%d]: unexpected field key", name, i)
				}
				x = kv.Value
			}
			s, err := p.EvalString(x)
			if err != nil {
				return nil, fmt.Errorf("%s[%d]: %w", name, i, err)
			}
			nv[j] = s
		}
		out = append(out, nv)
	}
	return out, nil
}

func c33IntArray(p *Pkg, name string, wantLen int) ([]string, error) {
	tv, err := p.Var(name)
	if err != nil {
		return nil, err
	}
	cl, ok := tv.(*ast.CompositeLit)
	if !ok {
		return nil, fmt.Errorf("%s: initializer is not a composite literal", name)
	}
	var out []string
	for i, e := range cl.Elts {
		if _, ok := e.(*ast.KeyValueExpr); ok {
			return nil, fmt.Errorf("%s[%d]: keyed element not supported", name, i)
		}
		v, err := p.EvalInt(e)
		if err != nil {
			return nil, fmt.Errorf("%s[%d]: %w", name, i, err)
		}
		out = append(out, v)
	}
	if len(out) != wantLen {
		return nil, fmt.Errorf("%s: %d elements, want %d", name, len(out), wantLen)
	}
	return out, nil
}

func c33Consts(p *Pkg, b *strings.Builder, names []string) error {
	for _, c := range names {
		v, err := p.ConstInt(c)
		if err != nil {
			return err
		}
		b.WriteString("def " + c + " : Nat := " + v + "\n")
	}
	return nil
}

// caseListOfSwitch returns the constant values of the (single) case clause with
// more than `min` expressions / or all case expressions of the first switch in fn.
func c33SwitchCases(p *Pkg, fn string, clause int) ([]string, error) {
	fd, err := p.Func(fn)
	if err != nil {
		return nil, err
	}
	var sw *ast.SwitchStmt
	ast.Inspect(fd.Body, func(n ast.Node) bool {
		if s, ok := n.(*ast.SwitchStmt); ok && sw == nil {
			sw = s
		}
		return sw == nil
	})
	if sw == nil {
		return nil, fmt.Errorf("%s: no switch statement", fn)
	}
	k := 0
	for _, st := range sw.Body.List {
		cc := st.(*ast.CaseClause)
		if cc.List == nil {
			continue
		}
		if k == clause {
			var out []string
			for _, e := range cc.List {
				v, err := p.EvalInt(e)
				if err != nil {
					return nil, fmt.Errorf("%s: case expr: %w", fn, err)
				}
				out = append(out, v)
			}
			return out, nil
		}
		k++
	}
	return nil, fmt.Errorf("%s: case clause %d not found", fn, clause)
}

func init() {
	register("c33", func(repo string, args []string) (string, error) {
		p, err := LoadPkg(filepath.Join(repo, "internal/http3"), false)
		if err != nil {
			return "", err
		}
		hp, err := LoadPkg(filepath.Join(repo, "http2/hpack"), false)
		if err != nil {
			return "", err
		}
		var b strings.Builder
		b.WriteString(Header("QPACK static table, HPACK Huffman code, http3 error codes.",
			"internal/http3/qpack_static.go", "http2/hpack/tables.go", "internal/http3/errors.go"))
		b.WriteString("namespace NetVerif.Gen.C33\n\n")
		ents, err := c33EntryTable(p, "staticTableEntries")
		if err != nil {
			return "", err
		}
		b.WriteString("def staticTable : List (List Nat × List Nat) := [\n")
		for i, e := range ents {
			sep := ","
			if i == len(ents)-1 {
				sep = ""
			}
			fmt.Fprintf(&b, "  (%s, %s)%s\n", LeanBytes(e[0]), LeanBytes(e[1]), sep)
		}
		b.WriteString("]\n\n")
		codes, err := c33IntArray(hp, "huffmanCodes", 256)
		if err != nil {
			return "", err
		}
		lens, err := c33IntArray(hp, "huffmanCodeLen", 256)
		if err != nil {
			return "", err
		}
		b.WriteString("def huffmanCodes : List Nat := [" + strings.Join(codes, ", ") + "]\n\n")
		b.WriteString("def huffmanCodeLen : List Nat := [" + strings.Join(lens, ", ") + "]\n\n")
		if err := c33Consts(p, &b, []string{"errQPACKDecompressionFailed", "errH3MessageError", "errH3FrameError",
			"mayIndex", "neverIndex"}); err != nil {
			return "", err
		}
		b.WriteString("\nend NetVerif.Gen.C33\n")
		return b.String(), nil
	})
	register("c35", func(repo string, args []string) (string, error) {
		p, err := LoadPkg(filepath.Join(repo, "internal/http3"), false)
		if err != nil {
			return "", err
		}
		var b strings.Builder
		b.WriteString(Header("HTTP/3 frame types, stream types, error codes, known-frame list.",
			"internal/http3/http3.go", "internal/http3/errors.go", "internal/http3/stream.go", "internal/http3/settings.go"))
		b.WriteString("namespace NetVerif.Gen.C35\n\n")
		if err := c33Consts(p, &b, []string{"frameTypeData", "frameTypeHeaders", "frameTypeCancelPush", "frameTypeSettings",
			"frameTypePushPromise", "frameTypeGoaway", "frameTypeMaxPushID",
			"streamTypeControl", "streamTypePush", "streamTypeEncoder", "streamTypeDecoder",
			"errH3NoError", "errH3InternalError", "errH3StreamCreationError", "errH3ClosedCriticalStream",
			"errH3FrameUnexpected", "errH3FrameError", "errH3IDError", "errH3SettingsError", "errH3MissingSettings",
			"errH3MessageError", "errQPACKDecompressionFailed"}); err != nil {
			return "", err
		}
		known, err := c33SwitchCases(p, "stream.discardUnknownFrame", 0)
		if err != nil {
			return "", err
		}
		b.WriteString("\ndef knownFrameTypes : List Nat := [" + strings.Join(known, ", ") + "]\n")
		res, err := c33SwitchCases(p, "stream.readSettings", 0)
		if err != nil {
			return "", err
		}
		b.WriteString("def reservedSettings : List Nat := [" + strings.Join(res, ", ") + "]\n")
		b.WriteString("\nend NetVerif.Gen.C35\n")
		return b.String(), nil
	})
}
