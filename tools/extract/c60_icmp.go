package main

// c60: protocol / type / class constants used by the icmp codecs and ipv4.Header.

import (
	"fmt"
	"go/ast"
	"path/filepath"
	"strings"
)

func init() {
	register("c60", func(repo string, args []string) (string, error) {
		type src struct {
			dir    string
			prefix string
			names  []string
		}
		srcs := []src{
			{"internal/iana", "iana", []string{"ProtocolICMP", "ProtocolIPv6ICMP", "AddrFamilyIPv4", "AddrFamilyIPv6"}},
			{"ipv4", "v4", []string{"ICMPTypeEchoReply", "ICMPTypeDestinationUnreachable", "ICMPTypeEcho", "ICMPTypeTimeExceeded",
				"ICMPTypeParameterProblem", "ICMPTypeExtendedEchoRequest", "ICMPTypeExtendedEchoReply", "Version", "HeaderLen"}},
			{"ipv6", "v6", []string{"ICMPTypeDestinationUnreachable", "ICMPTypePacketTooBig", "ICMPTypeTimeExceeded",
				"ICMPTypeParameterProblem", "ICMPTypeEchoRequest", "ICMPTypeEchoReply", "ICMPTypeExtendedEchoRequest", "ICMPTypeExtendedEchoReply"}},
			{"icmp", "icmp", []string{"extensionVersion", "classMPLSLabelStack", "typeIncomingMPLSLabelStack", "classInterfaceInfo",
				"classInterfaceIdent", "typeInterfaceByName", "typeInterfaceByIndex", "typeInterfaceByAddress",
				"attrMTU", "attrName", "attrIPAddr", "attrIfIndex"}},
		}
		var b strings.Builder
		b.WriteString(Header("ICMP / IPv4 header constants.", "internal/iana/const.go", "ipv4/iana.go", "ipv4/header.go", "ipv6/iana.go",
			"icmp/extension.go", "icmp/mpls.go", "icmp/interface.go"))
		b.WriteString("namespace NetVerif.Gen.C60\n\n")
		for _, s := range srcs {
			p, err := LoadPkg(filepath.Join(repo, s.dir), false)
			if err != nil {
				return "", err
			}
			for _, n := range s.names {
				v, err := p.ConstInt(n)
				if err != nil {
					return "", err
				}
				b.WriteString("def " + s.prefix + "_" + n + " : Nat := " + v + "\n")
			}
		}
		// parseFns: map[Type]func -> list of (protocol, type number, parser name)
		ip, err := LoadPkg(filepath.Join(repo, "icmp"), false)
		if err != nil {
			return "", err
		}
		pf, err := ip.Var("parseFns")
		if err != nil {
			return "", err
		}
		cl, ok := pf.(*ast.CompositeLit)
		if !ok {
			return "", fmt.Errorf("parseFns is not a composite literal")
		}
		pk4, err := LoadPkg(filepath.Join(repo, "ipv4"), false)
		if err != nil {
			return "", err
		}
		pk6, err := LoadPkg(filepath.Join(repo, "ipv6"), false)
		if err != nil {
			return "", err
		}
		var ents []string
		for _, el := range cl.Elts {
			kv, ok := el.(*ast.KeyValueExpr)
			if !ok {
				return "", fmt.Errorf("parseFns: element is not key: value")
			}
			sel, ok := kv.Key.(*ast.SelectorExpr)
			if !ok {
				return "", fmt.Errorf("parseFns: key is not pkg.Const")
			}
			pkg, _ := sel.X.(*ast.Ident)
			fn, ok := kv.Value.(*ast.Ident)
			if pkg == nil || !ok {
				return "", fmt.Errorf("parseFns: unsupported entry shape")
			}
			var proto, v string
			switch pkg.Name {
			case "ipv4":
				proto = "1"
				v, err = pk4.ConstInt(sel.Sel.Name)
			case "ipv6":
				proto = "58"
				v, err = pk6.ConstInt(sel.Sel.Name)
			default:
				return "", fmt.Errorf("parseFns: key package %s", pkg.Name)
			}
			if err != nil {
				return "", err
			}
			ents = append(ents, fmt.Sprintf("(%s, %s, %q)", proto, v, fn.Name))
		}
		b.WriteString("\ndef parseFns : List (Nat × Nat × String) :=\n  [" + strings.Join(ents, ",\n   ") + "]\n")
		b.WriteString("\nend NetVerif.Gen.C60\n")
		return b.String(), nil
	})
}
