package main

// c36: constants, limits and the shape of the guarding conditions of
// dns/dnsmessage (message.go, svcb.go) for the DNS model (C36, C37).

import (
	"bytes"
	"fmt"
	"go/ast"
	"go/printer"
	"path/filepath"
	"regexp"
	"strings"
)

func c36Print(p *Pkg, n ast.Node) string {
	var b bytes.Buffer
	printer.Fprint(&b, p.Fset, n)
	return strings.Join(strings.Fields(b.String()), " ")
}

// c36Conds returns the printed conditions of every if statement of a function, in source order.
func c36Conds(p *Pkg, fn string) ([]string, error) {
	fd, err := p.Func(fn)
	if err != nil {
		return nil, err
	}
	var out []string
	ast.Inspect(fd.Body, func(n ast.Node) bool {
		if s, ok := n.(*ast.IfStmt); ok {
			c := c36Print(p, s.Cond)
			if s.Init != nil {
				c = c36Print(p, s.Init) + "; " + c
			}
			out = append(out, c)
		}
		return true
	})
	return out, nil
}

func c36Find(conds []string, re string) (string, error) {
	r := regexp.MustCompile(re)
	var hit []string
	for _, c := range conds {
		if m := r.FindStringSubmatch(c); m != nil {
			hit = append(hit, m[1])
		}
	}
	if len(hit) != 1 {
		return "", fmt.Errorf("condition /%s/: %d matches in %q", re, len(hit), conds)
	}
	return hit[0], nil
}

func c36LowerFirst(s string) string { return strings.ToLower(s[:1]) + s[1:] }

func init() {
	register("c36", func(repo string, args []string) (string, error) {
		p, err := LoadPkg(filepath.Join(repo, "dns/dnsmessage"), false)
		if err != nil {
			return "", err
		}
		var b strings.Builder
		b.WriteString(Header("dnsmessage constants, limits and guard shapes.", "dns/dnsmessage/message.go", "dns/dnsmessage/svcb.go"))
		b.WriteString("namespace NetVerif.Gen.C36\n\n")
		for _, c := range []string{"TypeA", "TypeNS", "TypeCNAME", "TypeSOA", "TypePTR", "TypeMX", "TypeTXT", "TypeAAAA",
			"TypeSRV", "TypeOPT", "TypeSVCB", "TypeHTTPS", "ClassINET", "ClassANY",
			"headerBitQR", "headerBitAA", "headerBitTC", "headerBitRD", "headerBitRA", "headerBitAD", "headerBitCD",
			"headerLen", "uint16Len", "uint32Len", "nonEncodedNameMax"} {
			v, err := p.ConstInt(c)
			if err != nil {
				return "", err
			}
			b.WriteString("def " + c36LowerFirst(c) + " : Nat := " + v + "\n")
		}
		// limits that are literals inside conditions
		unpack, err := c36Conds(p, "Name.unpack")
		if err != nil {
			return "", err
		}
		pack, err := c36Conds(p, "Name.pack")
		if err != nil {
			return "", err
		}
		text, err := c36Conds(p, "packText")
		if err != nil {
			return "", err
		}
		// the pointer budget: a literal before the ptr-depth repair, the constant
		// maxCompressionPointers (shared with Name.pack / compressionDepth) after it
		ptrLimit, err := c36Find(unpack, `^ptr\+\+; ptr > (\d+)$`)
		if err != nil {
			if _, err2 := c36Find(unpack, `^ptr\+\+; ptr > (maxCompressionPointers)$`); err2 != nil {
				return "", err
			}
			if ptrLimit, err = p.ConstInt("maxCompressionPointers"); err != nil {
				return "", err
			}
			if _, err := c36Find(pack, `^ptr, ok := .*; ok && compressionDepth\(msg, compressionOff, int\(ptr\)\) < (maxCompressionPointers)$`); err != nil {
				return "", err
			}
			depth, err := c36Conds(p, "compressionDepth")
			if err != nil {
				return "", err
			}
			if _, err := c36Find(depth, `^depth\+\+; depth >= (maxCompressionPointers)$`); err != nil {
				return "", err
			}
			b.WriteString("/-- Name.pack consults compressionDepth before emitting a pointer -/\ndef packChecksDepth : Bool := true\n")
		}
		if _, err := c36Find(unpack, `^(len\(name\)\+\(endOff-currOff\) >= nonEncodedNameMax)$`); err != nil {
			return "", err
		}
		if _, err := c36Find(pack, `^(n\.Length > nonEncodedNameMax)$`); err != nil {
			return "", err
		}
		seg, err := c36Find(pack, `^i-begin >= (1<<\d+|\d+)$`)
		if err != nil {
			return "", err
		}
		segV := seg
		if strings.HasPrefix(seg, "1<<") {
			var k uint
			fmt.Sscanf(seg, "1<<%d", &k)
			segV = fmt.Sprint(1 << k)
		}
		if _, err := c36Find(pack, `^newPtr <= (int\(\^uint16\(0\)>>2\))$`); err != nil {
			return "", err
		}
		textMax, err := c36Find(text, `^l > (\d+)$`)
		if err != nil {
			return "", err
		}
		// unpackSVCBResource rejects a compressed TargetName (since the repack-ResTooLong-svcb repair)
		if svcb, err := c36Conds(p, "unpackSVCBResource"); err == nil {
			if _, err := c36Find(svcb, `^(msg\[i\]&0xC0 == 0xC0)$`); err == nil {
				b.WriteString("/-- unpackSVCBResource rejects a compressed TargetName -/\ndef svcbRejectsCompressedTarget : Bool := true\n")
			}
		}
		b.WriteString("/-- `ptr++; ptr > N` in Name.unpack -/\ndef ptrLimit : Nat := " + ptrLimit + "\n")
		b.WriteString("/-- `i-begin >= N` in Name.pack -/\ndef segLimit : Nat := " + segV + "\n")
		b.WriteString("/-- `newPtr <= int(^uint16(0)>>2)` in Name.pack -/\ndef maxPtr : Nat := 16383\n")
		b.WriteString("/-- `l > N` in packText -/\ndef textMax : Nat := " + textMax + "\n")
		// the type switch of unpackResourceBody, in source order
		fd, err := p.Func("unpackResourceBody")
		if err != nil {
			return "", err
		}
		var types []string
		ast.Inspect(fd.Body, func(n ast.Node) bool {
			if cc, ok := n.(*ast.CaseClause); ok {
				for _, e := range cc.List {
					if id, ok := e.(*ast.Ident); ok && strings.HasPrefix(id.Name, "Type") {
						v, err2 := p.ConstInt(id.Name)
						if err2 != nil {
							err = err2
						}
						types = append(types, v)
					}
				}
			}
			return true
		})
		if err != nil {
			return "", err
		}
		b.WriteString("/-- case labels of the type switch in unpackResourceBody -/\ndef bodyTypes : List Nat := [" + strings.Join(types, ", ") + "]\n\n")
		for _, fn := range []string{"packUint16", "packUint32"} {
			s, err := TranslateFunc(p, fn, TransOpts{LeanName: fn, Num: "Nat"})
			if err != nil {
				return "", err
			}
			b.WriteString(s + "\n")
		}
		b.WriteString("end NetVerif.Gen.C36\n")
		return b.String(), nil
	})
}
