package main

// c02: http2/hpack static table entries (static_table.go) and the local constant
// varIntOverhead of Decoder.Write (hpack.go), for Model/Hpack.lean (used by C02, C03, later C01/C05).
// Needs c04_huffman.go (localConsts).

import (
	"fmt"
	"go/ast"
	"path/filepath"
	"strings"
)

func init() {
	register("c02", func(repo string, args []string) (string, error) {
		p, err := LoadPkg(filepath.Join(repo, "http2/hpack"), false)
		if err != nil {
			return "", err
		}
		e, err := p.Var("staticTable")
		if err != nil {
			return "", err
		}
		if u, ok := e.(*ast.UnaryExpr); ok {
			e = u.X
		}
		cl, ok := e.(*ast.CompositeLit)
		if !ok {
			return "", fmt.Errorf("staticTable: not a composite literal")
		}
		var ents *ast.CompositeLit
		for _, el := range cl.Elts {
			kv, ok := el.(*ast.KeyValueExpr)
			if !ok {
				return "", fmt.Errorf("staticTable: positional field")
			}
			k, _ := kv.Key.(*ast.Ident)
			if k == nil {
				return "", fmt.Errorf("staticTable: odd key")
			}
			switch k.Name {
			case "ents":
				ents, _ = kv.Value.(*ast.CompositeLit)
			case "evictCount":
				v, err := p.EvalInt(kv.Value)
				if err != nil || v != "0" {
					return "", fmt.Errorf("staticTable: evictCount is not 0")
				}
			case "byName", "byNameValue":
			default:
				return "", fmt.Errorf("staticTable: unknown field %s", k.Name)
			}
		}
		if ents == nil {
			return "", fmt.Errorf("staticTable: ents not found")
		}
		var rows []string
		for i, el := range ents.Elts {
			c, ok := el.(*ast.CompositeLit)
			if !ok {
				return "", fmt.Errorf("staticTable.ents[%d]: not a literal", i)
			}
			var name, value string
			seen := map[string]bool{}
			for _, f := range c.Elts {
				kv, ok := f.(*ast.KeyValueExpr)
				if !ok {
					return "", fmt.Errorf("staticTable.ents[%d]: positional field", i)
				}
				k := kv.Key.(*ast.Ident).Name
				seen[k] = true
				switch k {
				case "Name":
					name, err = p.EvalString(kv.Value)
				case "Value":
					value, err = p.EvalString(kv.Value)
				case "Sensitive":
					if id, ok := kv.Value.(*ast.Ident); !ok || id.Name != "false" {
						err = fmt.Errorf("Sensitive is not false")
					}
				default:
					err = fmt.Errorf("unknown field %s", k)
				}
				if err != nil {
					return "", fmt.Errorf("staticTable.ents[%d]: %w", i, err)
				}
			}
			if !seen["Name"] {
				return "", fmt.Errorf("staticTable.ents[%d]: no Name", i)
			}
			rows = append(rows, fmt.Sprintf("  (%s, %s)  -- %d %q %q", LeanBytes(name), LeanBytes(value), i+1, name, value))
		}
		lc, err := localConsts(p, "Decoder.Write")
		if err != nil {
			return "", err
		}
		ov, ok := lc["varIntOverhead"]
		if !ok {
			return "", fmt.Errorf("Decoder.Write: local const varIntOverhead not found")
		}
		var b strings.Builder
		b.WriteString(Header("HPACK static table and decoder constants.",
			"http2/hpack/static_table.go", "http2/hpack/hpack.go"))
		b.WriteString("namespace NetVerif.Gen.HpackStatic\n\n")
		b.WriteString("/-- `staticTable.ents` as (name, value) byte lists; HPACK index = position + 1. -/\n")
		b.WriteString("def entries : List (List Nat × List Nat) := [\n")
		for i, r := range rows {
			// the comma must precede the line comment
			k := strings.Index(r, "  -- ")
			sep := ","
			if i == len(rows)-1 {
				sep = ""
			}
			b.WriteString(r[:k] + sep + r[k:] + "\n")
		}
		b.WriteString("]\n\n")
		b.WriteString("/-- `const varIntOverhead` in `Decoder.Write`. -/\n")
		b.WriteString("def varIntOverhead : Nat := " + ov + "\n")
		b.WriteString("\nend NetVerif.Gen.HpackStatic\n")
		return b.String(), nil
	})
}
