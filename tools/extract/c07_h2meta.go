package main

// c07: what the ReadMetaHeaders path of http2/frame.go validates with:
// httpguts.isTokenTable (256-entry bool table), the pseudo-header names accepted by
// MetaHeadersFrame.checkPseudos (case lists of its switch, classified by the
// flag the clause sets) and Framer.maxHeaderListSize (translated).

import (
	"fmt"
	"go/ast"
	"go/token"
	"path/filepath"
	"strconv"
	"strings"
)

func c07BoolTable(p *Pkg, name string) ([]bool, error) {
	e, err := p.Var(name)
	if err != nil {
		return nil, err
	}
	cl, ok := e.(*ast.CompositeLit)
	if !ok {
		return nil, fmt.Errorf("%s: not a composite literal", name)
	}
	at, ok := cl.Type.(*ast.ArrayType)
	if !ok || at.Len == nil {
		return nil, fmt.Errorf("%s: not a fixed-size array", name)
	}
	if n, err := p.EvalInt(at.Len); err != nil || n != "256" {
		return nil, fmt.Errorf("%s: length is not 256", name)
	}
	if id, ok := at.Elt.(*ast.Ident); !ok || id.Name != "bool" {
		return nil, fmt.Errorf("%s: element type is not bool", name)
	}
	tab := make([]bool, 256)
	seen := map[int]bool{}
	for _, el := range cl.Elts {
		kv, ok := el.(*ast.KeyValueExpr)
		if !ok {
			return nil, fmt.Errorf("%s: positional element", name)
		}
		ks, err := p.EvalInt(kv.Key)
		if err != nil {
			return nil, fmt.Errorf("%s: key: %w", name, err)
		}
		k, err := strconv.Atoi(ks)
		if err != nil || k < 0 || k > 255 || seen[k] {
			return nil, fmt.Errorf("%s: bad or duplicate key %s", name, ks)
		}
		seen[k] = true
		id, ok := kv.Value.(*ast.Ident)
		if !ok || (id.Name != "true" && id.Name != "false") {
			return nil, fmt.Errorf("%s[%d]: not a bool literal", name, k)
		}
		tab[k] = id.Name == "true"
	}
	return tab, nil
}

func init() {
	register("c07", func(repo string, args []string) (string, error) {
		g, err := LoadPkg(filepath.Join(repo, "http/httpguts"), false)
		if err != nil {
			return "", err
		}
		p, err := LoadPkg(filepath.Join(repo, "http2"), false)
		if err != nil {
			return "", err
		}
		var b strings.Builder
		b.WriteString(Header("Header-field validity tables and pseudo-header names used by readMetaFrame.",
			"http/httpguts/httplex.go", "http2/frame.go"))
		b.WriteString("namespace NetVerif.Gen.C07\n\n")
		tab, err := c07BoolTable(g, "isTokenTable")
		if err != nil {
			return "", err
		}
		var cells []string
		for _, v := range tab {
			cells = append(cells, strconv.FormatBool(v))
		}
		b.WriteString("/-- Go `var isTokenTable = [256]bool{…}` (http/httpguts/httplex.go) -/\n")
		b.WriteString("def isTokenTable : List Bool :=\n  [" + strings.Join(cells, ", ") + "]\n\n")
		// checkPseudos: switch hf.Name { case <strings>: isRequest = true; case <strings>: isResponse = true; default: return … }
		fd, err := p.Func("MetaHeadersFrame.checkPseudos")
		if err != nil {
			return "", err
		}
		var sw *ast.SwitchStmt
		ast.Inspect(fd.Body, func(n ast.Node) bool {
			if s, ok := n.(*ast.SwitchStmt); ok && sw == nil {
				if sel, ok := s.Tag.(*ast.SelectorExpr); ok && sel.Sel.Name == "Name" {
					sw = s
				}
			}
			return true
		})
		if sw == nil {
			return "", fmt.Errorf("checkPseudos: switch on hf.Name not found")
		}
		classes := map[string][]string{}
		sawDefault := false
		for _, st := range sw.Body.List {
			cc := st.(*ast.CaseClause)
			if cc.List == nil {
				sawDefault = true
				if len(cc.Body) != 1 {
					return "", fmt.Errorf("checkPseudos: unexpected default clause")
				}
				if _, ok := cc.Body[0].(*ast.ReturnStmt); !ok {
					return "", fmt.Errorf("checkPseudos: default clause does not return")
				}
				continue
			}
			if len(cc.Body) != 1 {
				return "", fmt.Errorf("checkPseudos: clause body is not a single statement")
			}
			as, ok := cc.Body[0].(*ast.AssignStmt)
			if !ok || as.Tok != token.ASSIGN || len(as.Lhs) != 1 || len(as.Rhs) != 1 {
				return "", fmt.Errorf("checkPseudos: clause body is not `x = true`")
			}
			lhs, ok1 := as.Lhs[0].(*ast.Ident)
			rhs, ok2 := as.Rhs[0].(*ast.Ident)
			if !ok1 || !ok2 || rhs.Name != "true" {
				return "", fmt.Errorf("checkPseudos: clause body is not `x = true`")
			}
			for _, e := range cc.List {
				s, err := p.EvalString(e)
				if err != nil {
					return "", fmt.Errorf("checkPseudos: case label: %w", err)
				}
				classes[lhs.Name] = append(classes[lhs.Name], s)
			}
		}
		if !sawDefault || len(classes) != 2 || classes["isRequest"] == nil || classes["isResponse"] == nil {
			return "", fmt.Errorf("checkPseudos: unexpected switch shape %v", classes)
		}
		for _, k := range []string{"isRequest", "isResponse"} {
			var rows []string
			for _, s := range classes[k] {
				rows = append(rows, LeanBytes(s))
			}
			b.WriteString("/-- case labels of `checkPseudos` that set `" + k + "`: " + strings.Join(classes[k], " ") + " -/\n")
			b.WriteString("def pseudo_" + k + " : List (List Nat) :=\n  [" + strings.Join(rows, ",\n   ") + "]\n\n")
		}
		s, err := TranslateFunc(p, "Framer.maxHeaderListSize", TransOpts{LeanName: "maxHeaderListSize", Num: "Nat",
			Fields: []string{"MaxHeaderListSize"}})
		if err != nil {
			return "", err
		}
		b.WriteString(s + "\n")
		b.WriteString("end NetVerif.Gen.C07\n")
		return b.String(), nil
	})
}
