package main

// c48: the opcode constants / masks of bpf/constants.go and the small
// switch tables of bpf/instructions.go (jumpToRaw, jumpOpToTest, the ALU
// operator list and the extension threshold of Disassemble) as Lean data.
// Shared by C48 and C49 (C49 additionally reads the VM's switch tables).

import (
	"fmt"
	"go/ast"
	"go/token"
	"path/filepath"
	"strings"
)

var c48Consts = []string{
	"RegA", "RegX",
	"ALUOpAdd", "ALUOpSub", "ALUOpMul", "ALUOpDiv", "ALUOpOr", "ALUOpAnd", "ALUOpShiftLeft", "ALUOpShiftRight",
	"aluOpNeg", "ALUOpMod", "ALUOpXor",
	"JumpEqual", "JumpNotEqual", "JumpGreaterThan", "JumpLessThan", "JumpGreaterOrEqual", "JumpLessOrEqual",
	"JumpBitsSet", "JumpBitsNotSet",
	"extOffset", "ExtLen",
	"opMaskCls", "opMaskLoadDest", "opMaskLoadWidth", "opMaskLoadMode", "opMaskOperand", "opMaskOperator",
	"opClsLoadA", "opClsLoadX", "opClsStoreA", "opClsStoreX", "opClsALU", "opClsJump", "opClsReturn", "opClsMisc",
	"opAddrModeImmediate", "opAddrModeAbsolute", "opAddrModeIndirect", "opAddrModeScratch", "opAddrModePacketLen",
	"opAddrModeMemShift",
	"opLoadWidth4", "opLoadWidth2", "opLoadWidth1",
	"opOperandConstant", "opOperandX",
	"opJumpAlways", "opJumpEqual", "opJumpGT", "opJumpGE", "opJumpSet",
	"opRetSrcConstant", "opRetSrcA",
	"opMiscTAX", "opMiscTXA",
}

func init() {
	register("c48", func(repo string, args []string) (string, error) {
		p, err := LoadPkg(filepath.Join(repo, "bpf"), false)
		if err != nil {
			return "", err
		}
		var b strings.Builder
		b.WriteString(Header("bpf opcode constants and switch tables.", "bpf/constants.go", "bpf/instructions.go"))
		b.WriteString("namespace NetVerif.Gen.C48\n\n")
		for _, c := range c48Consts {
			v, err := p.ConstInt(c)
			if err != nil {
				return "", err
			}
			ty := "Nat"
			if strings.HasPrefix(v, "-") || c == "ExtLen" {
				ty = "Int"
			}
			fmt.Fprintf(&b, "def %s : %s := %s\n", c, ty, v)
		}
		b.WriteString("\n")

		// jumpToRaw: switch test { case T: cond = C | cond, flip = C, true }
		fd, err := p.Func("jumpToRaw")
		if err != nil {
			return "", err
		}
		sw := findSwitch(fd.Body, "test")
		if sw == nil {
			return "", fmt.Errorf("jumpToRaw: `switch test` not found")
		}
		var rows []string
		for _, cc := range sw.Body.List {
			c := cc.(*ast.CaseClause)
			if c.List == nil { // default: must be the error return
				if len(c.Body) != 1 {
					return "", fmt.Errorf("jumpToRaw: unexpected default body")
				}
				if _, ok := c.Body[0].(*ast.ReturnStmt); !ok {
					return "", fmt.Errorf("jumpToRaw: default is not a return")
				}
				continue
			}
			if len(c.List) != 1 || len(c.Body) != 1 {
				return "", fmt.Errorf("jumpToRaw: unexpected case shape at %s", p.Fset.Position(c.Pos()))
			}
			as, ok := c.Body[0].(*ast.AssignStmt)
			if !ok || as.Tok != token.ASSIGN {
				return "", fmt.Errorf("jumpToRaw: case body is not an assignment at %s", p.Fset.Position(c.Pos()))
			}
			test, err := p.EvalInt(c.List[0])
			if err != nil {
				return "", err
			}
			flip := "false"
			switch {
			case len(as.Lhs) == 1 && exprString(as.Lhs[0]) == "cond":
			case len(as.Lhs) == 2 && exprString(as.Lhs[0]) == "cond" && exprString(as.Lhs[1]) == "flip" && exprString(as.Rhs[1]) == "true":
				flip = "true"
			default:
				return "", fmt.Errorf("jumpToRaw: unexpected assignment at %s", p.Fset.Position(as.Pos()))
			}
			cond, err := p.EvalInt(as.Rhs[0])
			if err != nil {
				return "", err
			}
			rows = append(rows, fmt.Sprintf("(%s, %s, %s)", test, cond, flip))
		}
		// the tail of jumpToRaw must be: jt, jf := skipTrue, skipFalse; if flip { jt, jf = jf, jt }; return RawInstruction{Op: opClsJump | uint16(cond) | uint16(operand), Jt: jt, Jf: jf, K: k}
		if err := checkJumpToRawTail(p, fd); err != nil {
			return "", err
		}
		b.WriteString("/-- `switch test` of jumpToRaw: (test, cond, flip) -/\n")
		b.WriteString("def jumpToRawTable : List (Nat × Nat × Bool) := [" + strings.Join(rows, ", ") + "]\n\n")

		// jumpOpToTest: if skipTrue == 0 { switch op {...}; return test, skipFalse, 0 }; switch op {...}; return test, skipTrue, skipFalse
		fd, err = p.Func("jumpOpToTest")
		if err != nil {
			return "", err
		}
		var zero, nonzero *ast.SwitchStmt
		for _, st := range fd.Body.List {
			switch s := st.(type) {
			case *ast.IfStmt:
				be, ok := s.Cond.(*ast.BinaryExpr)
				if !ok || be.Op != token.EQL || exprString(be.X) != "skipTrue" || exprString(be.Y) != "0" {
					return "", fmt.Errorf("jumpOpToTest: unexpected if condition")
				}
				zero = findSwitch(s.Body, "op")
				last, ok := s.Body.List[len(s.Body.List)-1].(*ast.ReturnStmt)
				if !ok || len(last.Results) != 3 || exprString(last.Results[0]) != "test" ||
					exprString(last.Results[1]) != "skipFalse" || exprString(last.Results[2]) != "0" {
					return "", fmt.Errorf("jumpOpToTest: unexpected return in the skipTrue==0 branch")
				}
			case *ast.SwitchStmt:
				if exprString(s.Tag) == "op" {
					nonzero = s
				}
			case *ast.ReturnStmt:
				if len(s.Results) != 3 || exprString(s.Results[0]) != "test" ||
					exprString(s.Results[1]) != "skipTrue" || exprString(s.Results[2]) != "skipFalse" {
					return "", fmt.Errorf("jumpOpToTest: unexpected final return")
				}
			}
		}
		if zero == nil || nonzero == nil {
			return "", fmt.Errorf("jumpOpToTest: switches not found")
		}
		for _, it := range []struct {
			name string
			sw   *ast.SwitchStmt
		}{{"jumpOpToTestZero", zero}, {"jumpOpToTestNonZero", nonzero}} {
			rows, err := simpleSwitchTable(p, it.sw, "test")
			if err != nil {
				return "", fmt.Errorf("jumpOpToTest: %w", err)
			}
			fmt.Fprintf(&b, "def %s : List (Nat × Nat) := [%s]\n", it.name, strings.Join(rows, ", "))
		}
		b.WriteString("\n")

		// Disassemble: the ALU operator list and the extension threshold
		// the decoder proper: the unexported disassemble (behind the reassembly guard of Disassemble), or
		// Disassemble itself on trees that predate the guard
		fd, err = p.Func("RawInstruction.disassemble")
		if err != nil {
			fd, err = p.Func("RawInstruction.Disassemble")
		}
		if err != nil {
			return "", err
		}
		var aluList []string
		var thr string
		var jumpList []string
		ast.Inspect(fd.Body, func(n ast.Node) bool {
			switch x := n.(type) {
			case *ast.CaseClause:
				if len(x.List) > 1 {
					names := map[string]bool{}
					for _, e := range x.List {
						names[exprString(e)] = true
					}
					var vals []string
					for _, e := range x.List {
						v, err := p.EvalInt(e)
						if err != nil {
							return true
						}
						vals = append(vals, v)
					}
					if names["ALUOpAdd"] {
						aluList = vals
					}
					if names["opJumpEqual"] {
						jumpList = vals
					}
				}
			case *ast.BinaryExpr:
				if x.Op == token.GTR && exprString(x.X) == "ri.K" {
					if v, err := p.EvalInt(x.Y); err == nil && v != "15" {
						thr = v
					}
				}
			}
			return true
		})
		if aluList == nil || thr == "" || jumpList == nil {
			return "", fmt.Errorf("Disassemble: ALU list / jump list / extension threshold not found")
		}
		b.WriteString("/-- binary ALU operators accepted by Disassemble -/\n")
		b.WriteString("def disasmALUBinary : List Nat := [" + strings.Join(aluList, ", ") + "]\n")
		b.WriteString("/-- conditional jump operators accepted by Disassemble -/\n")
		b.WriteString("def disasmJumpConds : List Nat := [" + strings.Join(jumpList, ", ") + "]\n")
		b.WriteString("/-- `extOffset+0xffffffff` in Disassemble -/\n")
		b.WriteString("def extThreshold : Nat := " + thr + "\n\n")
		b.WriteString("end NetVerif.Gen.C48\n")
		return b.String(), nil
	})
}

// findSwitch finds the first `switch <tag> {` (tag an identifier) directly or nested in body.
func findSwitch(body *ast.BlockStmt, tag string) *ast.SwitchStmt {
	var found *ast.SwitchStmt
	ast.Inspect(body, func(n ast.Node) bool {
		if found != nil {
			return false
		}
		if s, ok := n.(*ast.SwitchStmt); ok && s.Tag != nil && exprString(s.Tag) == tag {
			found = s
			return false
		}
		return true
	})
	return found
}

// simpleSwitchTable reads `case A: <lhs> = B` clauses (single value, single assignment).
func simpleSwitchTable(p *Pkg, sw *ast.SwitchStmt, lhs string) ([]string, error) {
	var rows []string
	for _, cc := range sw.Body.List {
		c := cc.(*ast.CaseClause)
		if len(c.List) != 1 || len(c.Body) != 1 {
			return nil, fmt.Errorf("unexpected case shape at %s", p.Fset.Position(c.Pos()))
		}
		as, ok := c.Body[0].(*ast.AssignStmt)
		if !ok || as.Tok != token.ASSIGN || len(as.Lhs) != 1 || exprString(as.Lhs[0]) != lhs {
			return nil, fmt.Errorf("unexpected case body at %s", p.Fset.Position(c.Pos()))
		}
		k, err := p.EvalInt(c.List[0])
		if err != nil {
			return nil, err
		}
		v, err := p.EvalInt(as.Rhs[0])
		if err != nil {
			return nil, err
		}
		rows = append(rows, fmt.Sprintf("(%s, %s)", k, v))
	}
	return rows, nil
}

func checkJumpToRawTail(p *Pkg, fd *ast.FuncDecl) error {
	n := len(fd.Body.List)
	if n < 4 {
		return fmt.Errorf("jumpToRaw: body too short")
	}
	as, ok := fd.Body.List[n-3].(*ast.AssignStmt)
	if !ok || as.Tok != token.DEFINE || len(as.Lhs) != 2 || exprString(as.Lhs[0]) != "jt" || exprString(as.Lhs[1]) != "jf" ||
		exprString(as.Rhs[0]) != "skipTrue" || exprString(as.Rhs[1]) != "skipFalse" {
		return fmt.Errorf("jumpToRaw: expected `jt, jf := skipTrue, skipFalse`")
	}
	is, ok := fd.Body.List[n-2].(*ast.IfStmt)
	if !ok || exprString(is.Cond) != "flip" || len(is.Body.List) != 1 || is.Else != nil {
		return fmt.Errorf("jumpToRaw: expected `if flip { jt, jf = jf, jt }`")
	}
	sw, ok := is.Body.List[0].(*ast.AssignStmt)
	if !ok || len(sw.Lhs) != 2 || exprString(sw.Lhs[0]) != "jt" || exprString(sw.Lhs[1]) != "jf" ||
		exprString(sw.Rhs[0]) != "jf" || exprString(sw.Rhs[1]) != "jt" {
		return fmt.Errorf("jumpToRaw: expected the swap `jt, jf = jf, jt`")
	}
	rs, ok := fd.Body.List[n-1].(*ast.ReturnStmt)
	if !ok || len(rs.Results) != 2 {
		return fmt.Errorf("jumpToRaw: expected a final return")
	}
	cl, ok := rs.Results[0].(*ast.CompositeLit)
	if !ok {
		return fmt.Errorf("jumpToRaw: expected a RawInstruction literal")
	}
	want := map[string]string{"Jt": "jt", "Jf": "jf", "K": "k"}
	for _, e := range cl.Elts {
		kv, ok := e.(*ast.KeyValueExpr)
		if !ok {
			return fmt.Errorf("jumpToRaw: unkeyed literal")
		}
		key := exprString(kv.Key)
		if key == "Op" {
			continue
		}
		if want[key] != exprString(kv.Value) {
			return fmt.Errorf("jumpToRaw: field %s is not %s", key, want[key])
		}
		delete(want, key)
	}
	if len(want) != 0 {
		return fmt.Errorf("jumpToRaw: literal misses fields")
	}
	return nil
}
