package main

// flow: http2/flow.go (inflow, takeInflows, outflow, inflowMinRefresh) as
// translated Lean definitions (properties C10, C11; outflow for C08/C09).
//
// flow.go is straight-line integer code, but it uses two shapes the shared
// translator does not know: pointer-to-struct parameters (takeInflows) and a
// nested pointer field (outflow.conn.n). Before translation this extractor
// applies two purely syntactic, shape-checked rewrites to the parsed AST:
//
//   - flattenPtrParams: a parameter `p *inflow` becomes integer parameters
//     `p_<field>`; `p.<field>` becomes the identifier `p_<field>` and every
//     `return e...` additionally returns the final `p_<field>` values.
//   - outflow: `f.conn != nil` -> `f.hasConn != 0`, `f.conn.n` -> `f.connN`
//     (the conn-level outflow's counter, passed in and returned), and every
//     int32 `+`/`-` (all operands in these functions are declared int32; this
//     is checked) is wrapped in `wrap32(...)` because outflow.add relies on
//     two's-complement wrap-around to detect overflow.
//
// Control flow, comparisons, constants and operand order still come from the
// Go source, so an edited bound or comparison changes the generated file.

import (
	"fmt"
	"go/ast"
	"go/token"
	"path/filepath"
	"strings"
)

func init() {
	register("flow", func(repo string, args []string) (string, error) {
		p, err := LoadPkg(filepath.Join(repo, "http2"), false)
		if err != nil {
			return "", err
		}
		var b strings.Builder
		b.WriteString(Header("HTTP/2 flow-control arithmetic translated from Go.", "http2/flow.go"))
		b.WriteString("namespace NetVerif.Gen.Flow\n\n")
		v, err := p.ConstInt("inflowMinRefresh")
		if err != nil {
			return "", err
		}
		b.WriteString("def inflowMinRefresh : Int := " + v + "\n")
		v, err = p.ConstInt("initialWindowSize")
		if err != nil {
			return "", err
		}
		b.WriteString("def initialWindowSize : Int := " + v + "\n\n")
		b.WriteString("/-- two's-complement reduction of an int32 result -/\n")
		b.WriteString("def wrap32 (x : Int) : Int := Int.emod (x + 2147483648) 4294967296 - 2147483648\n\n")

		if err := checkStructFields(p, "inflow", map[string]string{"avail": "int32", "unsent": "int32"}); err != nil {
			return "", err
		}
		if err := checkStructFields(p, "outflow", map[string]string{"n": "int32", "conn": "*outflow"}); err != nil {
			return "", err
		}

		// inflow.init / add / take
		for _, fn := range []struct{ name, lean string }{
			{"inflow.init", "inflowInit"}, {"inflow.add", "inflowAdd"}, {"inflow.take", "inflowTake"},
		} {
			s, err := TranslateFunc(p, fn.name, TransOpts{LeanName: fn.lean, Num: "Int",
				Fields: []string{"avail", "unsent"}, ReturnFields: true})
			if err != nil {
				return "", err
			}
			b.WriteString(s + "\n")
		}

		// takeInflows
		fd, err := p.Func("takeInflows")
		if err != nil {
			return "", err
		}
		if err := flattenPtrParams(fd, "inflow", []string{"avail"}); err != nil {
			return "", err
		}
		s, err := TranslateFunc(p, "takeInflows", TransOpts{LeanName: "takeInflows", Num: "Int"})
		if err != nil {
			return "", err
		}
		b.WriteString(s + "\n")

		// outflow
		for _, fn := range []string{"outflow.available", "outflow.take", "outflow.add"} {
			fd, err := p.Func(fn)
			if err != nil {
				return "", err
			}
			if err := rewriteOutflow(fd); err != nil {
				return "", fmt.Errorf("%s: %w", fn, err)
			}
		}
		s, err = TranslateFunc(p, "outflow.available", TransOpts{LeanName: "outflowAvailable", Num: "Int",
			Fields: []string{"n", "hasConn", "connN"}})
		if err != nil {
			return "", err
		}
		b.WriteString(s + "\n")
		b.WriteString("def outflowAvailableD (n hasConn connN : Int) : Int := (outflowAvailable n hasConn connN).getD 0\n\n")
		for _, fn := range []struct{ name, lean string }{{"outflow.take", "outflowTake"}, {"outflow.add", "outflowAdd"}} {
			s, err := TranslateFunc(p, fn.name, TransOpts{LeanName: fn.lean, Num: "Int",
				Fields: []string{"n", "hasConn", "connN"}, ReturnFields: true,
				Calls: map[string]string{"f.available": "outflowAvailableD", "wrap32": "wrap32"}})
			if err != nil {
				return "", err
			}
			b.WriteString(s + "\n")
		}
		// setConnFlow is a single pointer store; check its shape so a change is noticed.
		fd, err = p.Func("outflow.setConnFlow")
		if err != nil {
			return "", err
		}
		if len(fd.Body.List) != 1 {
			return "", fmt.Errorf("outflow.setConnFlow: unexpected body")
		}
		as, ok := fd.Body.List[0].(*ast.AssignStmt)
		if !ok || as.Tok != token.ASSIGN || len(as.Lhs) != 1 || selString(as.Lhs[0]) != "f.conn" ||
			len(fd.Type.Params.List) != 1 || len(fd.Type.Params.List[0].Names) != 1 ||
			selString(as.Rhs[0]) != fd.Type.Params.List[0].Names[0].Name {
			return "", fmt.Errorf("outflow.setConnFlow: expected `f.conn = <param>`")
		}
		b.WriteString("/-- `outflow.setConnFlow` is the single store `f.conn = cf` (shape checked by the extractor). -/\n")
		b.WriteString("def outflowSetConnFlowIsPlainStore : Bool := true\n\n")
		b.WriteString("end NetVerif.Gen.Flow\n")
		return b.String(), nil
	})
}

func selString(e ast.Expr) string {
	switch x := e.(type) {
	case *ast.Ident:
		return x.Name
	case *ast.SelectorExpr:
		return selString(x.X) + "." + x.Sel.Name
	case *ast.StarExpr:
		return "*" + selString(x.X)
	}
	return fmt.Sprintf("<%T>", e)
}

// checkStructFields verifies the declared field types of a struct (extra
// blank `_` fields are ignored).
func checkStructFields(p *Pkg, name string, want map[string]string) error {
	for _, f := range p.Files {
		for _, d := range f.Decls {
			gd, ok := d.(*ast.GenDecl)
			if !ok || gd.Tok != token.TYPE {
				continue
			}
			for _, s := range gd.Specs {
				ts := s.(*ast.TypeSpec)
				if ts.Name.Name != name {
					continue
				}
				st, ok := ts.Type.(*ast.StructType)
				if !ok {
					return fmt.Errorf("type %s is not a struct", name)
				}
				got := map[string]string{}
				for _, fl := range st.Fields.List {
					for _, n := range fl.Names {
						if n.Name != "_" {
							got[n.Name] = selString(fl.Type)
						}
					}
				}
				if len(got) != len(want) {
					return fmt.Errorf("type %s: fields %v, want %v", name, got, want)
				}
				for k, v := range want {
					if got[k] != v {
						return fmt.Errorf("type %s: field %s has type %q, want %q", name, k, got[k], v)
					}
				}
				return nil
			}
		}
	}
	return fmt.Errorf("type %s not found", name)
}

// rewriteExprs applies f bottom-up to every expression below the statements.
type exprRewriter func(ast.Expr) ast.Expr

func rwExpr(e ast.Expr, f exprRewriter) ast.Expr {
	switch x := e.(type) {
	case nil:
		return nil
	case *ast.BinaryExpr:
		x.X, x.Y = rwExpr(x.X, f), rwExpr(x.Y, f)
	case *ast.UnaryExpr:
		x.X = rwExpr(x.X, f)
	case *ast.ParenExpr:
		x.X = rwExpr(x.X, f)
	case *ast.CallExpr:
		for i := range x.Args {
			x.Args[i] = rwExpr(x.Args[i], f)
		}
	case *ast.SelectorExpr:
		// children are handled by f itself (selectors are matched whole)
	case *ast.Ident, *ast.BasicLit:
	default:
		panic(fmt.Sprintf("flow extractor: unsupported expression %T", e))
	}
	return f(e)
}

func rwStmts(list []ast.Stmt, f exprRewriter, fs func(ast.Stmt) ast.Stmt) {
	for i, s := range list {
		switch x := s.(type) {
		case *ast.AssignStmt:
			for j := range x.Lhs {
				x.Lhs[j] = rwExpr(x.Lhs[j], f)
			}
			for j := range x.Rhs {
				x.Rhs[j] = rwExpr(x.Rhs[j], f)
			}
		case *ast.IfStmt:
			if x.Init != nil {
				panic("flow extractor: if-init unsupported")
			}
			x.Cond = rwExpr(x.Cond, f)
			rwStmts(x.Body.List, f, fs)
			switch e := x.Else.(type) {
			case nil:
			case *ast.BlockStmt:
				rwStmts(e.List, f, fs)
			default:
				panic("flow extractor: else-if unsupported")
			}
		case *ast.ReturnStmt:
			for j := range x.Results {
				x.Results[j] = rwExpr(x.Results[j], f)
			}
		case *ast.ExprStmt:
			if c, ok := x.X.(*ast.CallExpr); ok {
				if id, ok := c.Fun.(*ast.Ident); ok && id.Name == "panic" {
					break
				}
			}
			panic("flow extractor: unsupported expression statement")
		case *ast.DeclStmt, *ast.EmptyStmt:
		default:
			panic(fmt.Sprintf("flow extractor: unsupported statement %T", s))
		}
		if fs != nil {
			list[i] = fs(list[i])
		}
	}
}

func guard(f func()) (err error) {
	defer func() {
		if e := recover(); e != nil {
			err = fmt.Errorf("%v", e)
		}
	}()
	f()
	return nil
}

// flattenPtrParams rewrites parameters of type *<typ> as described above.
func flattenPtrParams(fd *ast.FuncDecl, typ string, fields []string) error {
	ptr := map[string]bool{}
	var newParams []*ast.Field
	var extraRet []ast.Expr
	for _, fl := range fd.Type.Params.List {
		if selString(fl.Type) == "*"+typ {
			for _, n := range fl.Names {
				ptr[n.Name] = true
				for _, f := range fields {
					id := ast.NewIdent(n.Name + "_" + f)
					newParams = append(newParams, &ast.Field{Names: []*ast.Ident{id}, Type: ast.NewIdent("int32")})
					extraRet = append(extraRet, ast.NewIdent(n.Name+"_"+f))
				}
			}
			continue
		}
		newParams = append(newParams, fl)
	}
	if len(ptr) == 0 {
		return fmt.Errorf("%s: no *%s parameter", fd.Name.Name, typ)
	}
	fd.Type.Params.List = newParams
	if fd.Type.Results == nil {
		fd.Type.Results = &ast.FieldList{}
	}
	for range extraRet {
		fd.Type.Results.List = append(fd.Type.Results.List, &ast.Field{Type: ast.NewIdent("int32")})
	}
	isField := func(f string) bool {
		for _, x := range fields {
			if x == f {
				return true
			}
		}
		return false
	}
	return guard(func() {
		rwStmts(fd.Body.List, func(e ast.Expr) ast.Expr {
			if s, ok := e.(*ast.SelectorExpr); ok {
				if id, ok := s.X.(*ast.Ident); ok && ptr[id.Name] {
					if !isField(s.Sel.Name) {
						panic("flow extractor: unexpected field " + selString(e))
					}
					return ast.NewIdent(id.Name + "_" + s.Sel.Name)
				}
			}
			return e
		}, func(s ast.Stmt) ast.Stmt {
			if r, ok := s.(*ast.ReturnStmt); ok {
				for _, e := range extraRet {
					r.Results = append(r.Results, ast.NewIdent(e.(*ast.Ident).Name))
				}
			}
			return s
		})
	})
}

// rewriteOutflow makes the conn pointer explicit and int32 arithmetic wrapping.
func rewriteOutflow(fd *ast.FuncDecl) error {
	if fd.Recv == nil || len(fd.Recv.List[0].Names) != 1 || fd.Recv.List[0].Names[0].Name != "f" {
		return fmt.Errorf("receiver must be named f")
	}
	for _, fl := range fd.Type.Params.List {
		if selString(fl.Type) != "int32" {
			return fmt.Errorf("parameter type %s, want int32", selString(fl.Type))
		}
	}
	wrap := func(e ast.Expr) ast.Expr {
		return &ast.CallExpr{Fun: ast.NewIdent("wrap32"), Args: []ast.Expr{e}}
	}
	recvField := func(name string) ast.Expr {
		return &ast.SelectorExpr{X: ast.NewIdent("f"), Sel: ast.NewIdent(name)}
	}
	return guard(func() {
		rwStmts(fd.Body.List, func(e ast.Expr) ast.Expr {
			switch x := e.(type) {
			case *ast.SelectorExpr:
				switch selString(x) {
				case "f.conn.n":
					return recvField("connN")
				case "f.n":
					return e
				case "f.conn", "f.available":
					return e
				}
				panic("flow extractor: unexpected selector " + selString(x))
			case *ast.BinaryExpr:
				if (x.Op == token.NEQ || x.Op == token.EQL) && selString(x.X) == "f.conn" {
					if id, ok := x.Y.(*ast.Ident); !ok || id.Name != "nil" {
						panic("flow extractor: f.conn compared with non-nil")
					}
					return &ast.BinaryExpr{X: recvField("hasConn"), Op: x.Op, Y: &ast.BasicLit{Kind: token.INT, Value: "0"}}
				}
				if x.Op == token.ADD || x.Op == token.SUB || x.Op == token.MUL {
					return wrap(x)
				}
			}
			return e
		}, func(s ast.Stmt) ast.Stmt {
			if a, ok := s.(*ast.AssignStmt); ok && (a.Tok == token.ADD_ASSIGN || a.Tok == token.SUB_ASSIGN) {
				op := token.ADD
				if a.Tok == token.SUB_ASSIGN {
					op = token.SUB
				}
				return &ast.AssignStmt{Lhs: a.Lhs, Tok: token.ASSIGN,
					Rhs: []ast.Expr{wrap(&ast.BinaryExpr{X: a.Lhs[0], Op: op, Y: a.Rhs[0]})}}
			}
			return s
		})
		// any remaining bare reference to f.conn is an unsupported shape
		ast.Inspect(fd.Body, func(n ast.Node) bool {
			if s, ok := n.(*ast.SelectorExpr); ok && selString(s) == "f.conn" {
				panic("flow extractor: unsupported use of f.conn")
			}
			return true
		})
	})
}
