package main

// c27: the anti-amplification credit arithmetic of quic/loss.go as translated
// Lean definitions, plus the constants it depends on.
//
// lossState.antiAmplificationLimit is written in exactly four methods. Only
// two of them are straight-line; the others mix the credit update with timer
// and congestion-control calls the translator (rightly) refuses. This
// extractor therefore derives credit-only variants SYNTACTICALLY and fails
// loudly when a method has any other shape:
//
//   - init:               the one `if side == clientSide { … }` statement;
//   - datagramReceived:   the one `if c.antiAmplificationLimit != antiAmplificationUnlimited { … }`
//                         statement with only the assignments to the credit kept;
//   - packetSent:         `size := sent.size` (becomes the parameter) and the one
//                         `if c.antiAmplificationLimit != antiAmplificationUnlimited { … }` statement;
//   - validateClientAddress, maxSendSize: whole body (c.cc.maxDatagramSize becomes a parameter);
//   - sendLimit:          the condition of its first statement, which must return ccBlocked.
//
// Every statement that is dropped is checked not to assign the credit, and the
// set of functions of package quic that assign it at all is emitted as
// `creditWriters` (a theorem pins it), so a new writer breaks the check.

import (
	"bytes"
	"fmt"
	"go/ast"
	"go/parser"
	"go/printer"
	"path/filepath"
	"sort"
	"strings"
)

const c27Field = "antiAmplificationLimit"

func c27Print(p *Pkg, n ast.Node) string {
	var buf bytes.Buffer
	printer.Fprint(&buf, p.Fset, n)
	return buf.String()
}

func c27AddSynth(p *Pkg, name, src string) error {
	f, err := parser.ParseFile(p.Fset, "zz_verif_c27_"+name+".go", "package quic\n"+src, 0)
	if err != nil {
		return fmt.Errorf("synthesised %s does not parse: %v\n%s", name, err, src)
	}
	p.Files["zz_verif_c27_"+name+".go"] = f
	return nil
}

// c27Assigns reports whether n contains an assignment (=, op=, ++/--) whose
// target is a selector ending in .antiAmplificationLimit.
func c27Assigns(n ast.Node) bool {
	found := false
	isField := func(e ast.Expr) bool {
		s, ok := e.(*ast.SelectorExpr)
		return ok && s.Sel.Name == c27Field
	}
	ast.Inspect(n, func(x ast.Node) bool {
		switch s := x.(type) {
		case *ast.AssignStmt:
			for _, l := range s.Lhs {
				if isField(l) {
					found = true
				}
			}
		case *ast.IncDecStmt:
			if isField(s.X) {
				found = true
			}
		case *ast.UnaryExpr:
			// &c.antiAmplificationLimit would allow writes we cannot see
			if s.Op.String() == "&" && isField(s.X) {
				found = true
			}
		}
		return true
	})
	return found
}

// c27GuardedIf finds the single top-level `if <cond> {…}` of fn whose printed
// condition is cond; every other top-level statement must not assign the credit
// (except those whose printed form is listed in allow).
func c27GuardedIf(p *Pkg, fn, cond string, allow ...string) (*ast.FuncDecl, *ast.IfStmt, error) {
	fd, err := p.Func("lossState." + fn)
	if err != nil {
		return nil, nil, err
	}
	var hit *ast.IfStmt
	for _, st := range fd.Body.List {
		if is, ok := st.(*ast.IfStmt); ok && is.Init == nil && is.Else == nil && c27Print(p, is.Cond) == cond {
			if hit != nil {
				return nil, nil, fmt.Errorf("%s: more than one `if %s`", fn, cond)
			}
			hit = is
			continue
		}
		if c27Assigns(st) {
			return nil, nil, fmt.Errorf("%s: %s assigned outside `if %s`: %s", fn, c27Field, cond, c27Print(p, st))
		}
	}
	if hit == nil {
		return nil, nil, fmt.Errorf("%s: no `if %s` statement", fn, cond)
	}
	return fd, hit, nil
}

func init() {
	register("c27", func(repo string, args []string) (string, error) {
		p, err := LoadPkg(filepath.Join(repo, "quic"), false)
		if err != nil {
			return "", err
		}
		var b strings.Builder
		b.WriteString(Header("QUIC anti-amplification credit arithmetic translated from Go.", "quic/loss.go", "quic/quic.go", "quic/conn.go"))
		b.WriteString("namespace NetVerif.Gen.C27\n\n")
		for _, c := range []string{"antiAmplificationUnlimited", "minPacketSize", "smallestMaxDatagramSize", "paddedInitialDatagramSize", "clientSide", "serverSide"} {
			v, err := p.ConstInt(c)
			if err != nil {
				return "", err
			}
			b.WriteString("def " + c + " : Int := " + v + "\n")
		}

		// conn.go must hand smallestMaxDatagramSize to loss.init as the maximum datagram size.
		nc, err := p.Func("newConn")
		if err != nil {
			return "", err
		}
		initCalls := 0
		ast.Inspect(nc, func(x ast.Node) bool {
			if call, ok := x.(*ast.CallExpr); ok && c27Print(p, call.Fun) == "c.loss.init" {
				initCalls++
				if len(call.Args) != 3 || c27Print(p, call.Args[0]) != "c.side" {
					err = fmt.Errorf("newConn: unexpected c.loss.init call %s", c27Print(p, call))
					return false
				}
				v, e2 := p.EvalInt(call.Args[1])
				if e2 != nil {
					err = fmt.Errorf("newConn: c.loss.init maxDatagramSize argument is not constant: %v", e2)
					return false
				}
				b.WriteString("def connMaxDatagramSize : Int := " + v + "\n")
			}
			return true
		})
		if err != nil {
			return "", err
		}
		if initCalls != 1 {
			return "", fmt.Errorf("newConn: expected exactly one c.loss.init call, found %d", initCalls)
		}

		// the functions of package quic that assign the credit
		writers := map[string]bool{}
		for _, f := range p.Files {
			for _, d := range f.Decls {
				fd, ok := d.(*ast.FuncDecl)
				if !ok || fd.Body == nil || !c27Assigns(fd.Body) {
					continue
				}
				name := fd.Name.Name
				if fd.Recv != nil && len(fd.Recv.List) == 1 {
					name = baseTypeName(fd.Recv.List[0].Type) + "." + name
				}
				writers[name] = true
			}
		}
		var ws []string
		for w := range writers {
			ws = append(ws, fmt.Sprintf("%q", w))
		}
		sort.Strings(ws)
		b.WriteString("def creditWriters : List String := [" + strings.Join(ws, ", ") + "]\n\n")

		const guard = "c." + c27Field + " != antiAmplificationUnlimited"

		// init
		_, is, err := c27GuardedIf(p, "init", "side == clientSide")
		if err != nil {
			return "", err
		}
		if err := c27AddSynth(p, "init", "func (c *lossState) verif_c27_init(side connSide) {\n"+c27Print(p, is)+"\n}\n"); err != nil {
			return "", err
		}

		// datagramReceived: keep only the credit assignments of the guarded block
		fd, is, err := c27GuardedIf(p, "datagramReceived", guard)
		if err != nil {
			return "", err
		}
		if len(fd.Type.Params.List) != 2 || len(fd.Type.Params.List[1].Names) != 1 || fd.Type.Params.List[1].Names[0].Name != "size" {
			return "", fmt.Errorf("datagramReceived: unexpected parameters %s", c27Print(p, fd.Type))
		}
		var keep []string
		for _, st := range is.Body.List {
			if as, ok := st.(*ast.AssignStmt); ok && len(as.Lhs) == 1 && c27Print(p, as.Lhs[0]) == "c."+c27Field {
				keep = append(keep, c27Print(p, st))
				continue
			}
			if c27Assigns(st) {
				return "", fmt.Errorf("datagramReceived: nested credit assignment: %s", c27Print(p, st))
			}
		}
		if len(keep) != 1 {
			return "", fmt.Errorf("datagramReceived: expected exactly one credit assignment, found %d", len(keep))
		}
		if err := c27AddSynth(p, "recv", "func (c *lossState) verif_c27_datagramReceived(size int) {\nif "+guard+" {\n"+strings.Join(keep, "\n")+"\n}\n}\n"); err != nil {
			return "", err
		}

		// packetSent: `size := sent.size` + the guarded statement
		fd, is, err = c27GuardedIf(p, "packetSent", guard)
		if err != nil {
			return "", err
		}
		sizeDecls := 0
		ast.Inspect(fd.Body, func(x ast.Node) bool {
			if as, ok := x.(*ast.AssignStmt); ok {
				for _, l := range as.Lhs {
					if id, ok := l.(*ast.Ident); ok && id.Name == "size" {
						sizeDecls++
						if c27Print(p, as) != "size := sent.size" {
							err = fmt.Errorf("packetSent: unexpected assignment to size: %s", c27Print(p, as))
						}
					}
				}
			}
			return true
		})
		if err != nil {
			return "", err
		}
		if sizeDecls != 1 {
			return "", fmt.Errorf("packetSent: expected exactly one `size := sent.size`, found %d", sizeDecls)
		}
		if err := c27AddSynth(p, "sent", "func (c *lossState) verif_c27_packetSent(size int) {\n"+c27Print(p, is)+"\n}\n"); err != nil {
			return "", err
		}

		// maxSendSize: c.cc.maxDatagramSize becomes a parameter
		ms, err := p.Func("lossState.maxSendSize")
		if err != nil {
			return "", err
		}
		if len(ms.Body.List) != 1 {
			return "", fmt.Errorf("maxSendSize: unexpected shape")
		}
		rs, ok := ms.Body.List[0].(*ast.ReturnStmt)
		if !ok || len(rs.Results) != 1 {
			return "", fmt.Errorf("maxSendSize: unexpected shape")
		}
		e := c27Print(p, rs.Results[0])
		if !strings.Contains(e, "c.cc.maxDatagramSize") {
			return "", fmt.Errorf("maxSendSize: does not use c.cc.maxDatagramSize: %s", e)
		}
		e = strings.ReplaceAll(e, "c.cc.maxDatagramSize", "maxDatagramSize")
		if err := c27AddSynth(p, "maxsend", "func (c *lossState) verif_c27_maxSendSize(maxDatagramSize int) int { return "+e+" }\n"); err != nil {
			return "", err
		}

		// sendLimit: first statement `if <cond> { return ccBlocked, time.Time{} }`, and no other ccBlocked
		sl, err := p.Func("lossState.sendLimit")
		if err != nil {
			return "", err
		}
		first, ok := sl.Body.List[0].(*ast.IfStmt)
		if !ok || first.Init != nil || first.Else != nil || len(first.Body.List) != 1 ||
			c27Print(p, first.Body.List[0]) != "return ccBlocked, time.Time{}" {
			return "", fmt.Errorf("sendLimit: first statement is not `if … { return ccBlocked, time.Time{} }`")
		}
		if n := strings.Count(c27Print(p, sl.Body), "ccBlocked"); n != 1 {
			return "", fmt.Errorf("sendLimit: expected one use of ccBlocked, found %d", n)
		}
		if err := c27AddSynth(p, "blocked", "func (c *lossState) verif_c27_blocked() bool { return "+c27Print(p, first.Cond)+" }\n"); err != nil {
			return "", err
		}

		f1 := []string{c27Field}
		type job struct {
			fn string
			o  TransOpts
		}
		for _, j := range []job{
			{"lossState.verif_c27_init", TransOpts{LeanName: "initCredit", Num: "Int", Fields: f1, ReturnFields: true}},
			{"lossState.verif_c27_datagramReceived", TransOpts{LeanName: "datagramReceived", Num: "Int", Fields: f1, ReturnFields: true}},
			{"lossState.verif_c27_packetSent", TransOpts{LeanName: "packetSent", Num: "Int", Fields: f1, ReturnFields: true}},
			{"lossState.validateClientAddress", TransOpts{LeanName: "validateClientAddress", Num: "Int", Fields: f1, ReturnFields: true}},
			{"lossState.verif_c27_maxSendSize", TransOpts{LeanName: "maxSendSize", Num: "Int", Fields: f1}},
			{"lossState.verif_c27_blocked", TransOpts{LeanName: "blocked", Num: "Int", Fields: f1}},
		} {
			s, err := TranslateFunc(p, j.fn, j.o)
			if err != nil {
				return "", err
			}
			b.WriteString(s + "\n")
		}
		b.WriteString("end NetVerif.Gen.C27\n")
		return b.String(), nil
	})
}
