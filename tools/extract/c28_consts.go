package main

// c28: frame type bytes, STREAM flag bits, transport-parameter IDs, defaults and
// range limits of package quic, as Lean constants (Gen/C28.lean).

import (
	"path/filepath"
	"strings"
)

func init() {
	register("c28", func(repo string, args []string) (string, error) {
		p, err := LoadPkg(filepath.Join(repo, "quic"), false)
		if err != nil {
			return "", err
		}
		var b strings.Builder
		b.WriteString(Header("QUIC frame type bytes, transport parameter IDs and limits.", "quic/packet.go, quic/transport_params.go, quic/quic.go, quic/packet_protection.go"))
		b.WriteString("namespace NetVerif.Gen.C28\n\n")
		for _, c := range []string{
			"frameTypePadding", "frameTypePing", "frameTypeAck", "frameTypeAckECN", "frameTypeResetStream",
			"frameTypeStopSending", "frameTypeCrypto", "frameTypeNewToken", "frameTypeStreamBase",
			"frameTypeMaxData", "frameTypeMaxStreamData", "frameTypeMaxStreamsBidi", "frameTypeMaxStreamsUni",
			"frameTypeDataBlocked", "frameTypeStreamDataBlocked", "frameTypeStreamsBlockedBidi",
			"frameTypeStreamsBlockedUni", "frameTypeNewConnectionID", "frameTypeRetireConnectionID",
			"frameTypePathChallenge", "frameTypePathResponse", "frameTypeConnectionCloseTransport",
			"frameTypeConnectionCloseApplication", "frameTypeHandshakeDone",
			"streamOffBit", "streamLenBit", "streamFinBit", "maxStreamsLimit", "maxConnIDLen",
			"headerFormLong", "fixedBit", "keyPhaseBit",
			"longPacketTypeInitial", "longPacketType0RTT", "longPacketTypeHandshake", "longPacketTypeRetry",
			"headerProtectionSampleSize", "aeadOverhead",
			"paramOriginalDestinationConnectionID", "paramMaxIdleTimeout", "paramStatelessResetToken",
			"paramMaxUDPPayloadSize", "paramInitialMaxData", "paramInitialMaxStreamDataBidiLocal",
			"paramInitialMaxStreamDataBidiRemote", "paramInitialMaxStreamDataUni", "paramInitialMaxStreamsBidi",
			"paramInitialMaxStreamsUni", "paramAckDelayExponent", "paramMaxAckDelay", "paramDisableActiveMigration",
			"paramPreferredAddress", "paramActiveConnectionIDLimit", "paramInitialSourceConnectionID",
			"paramRetrySourceConnectionID",
			"defaultParamMaxUDPPayloadSize", "defaultParamAckDelayExponent", "defaultParamMaxAckDelayMilliseconds",
			"defaultParamActiveConnIDLimit",
		} {
			v, err := p.ConstInt(c)
			if err != nil {
				return "", err
			}
			b.WriteString("def " + c + " : Nat := " + v + "\n")
		}
		b.WriteString("\nend NetVerif.Gen.C28\n")
		return b.String(), nil
	})
}
