package main

// c04: the HPACK Huffman code tables of http2/hpack/tables.go
// (huffmanCodes [256]uint32, huffmanCodeLen [256]uint8) and the EOS padding
// constants local to AppendHuffmanString (huffman.go) as Lean lists/numbers.

import (
	"bytes"
	"fmt"
	"go/ast"
	"go/printer"
	"go/token"
	"path/filepath"
	"strings"
)

// arrayLit evaluates a package-level `var x = [N]T{...}` of integer constants.
// Keyed elements, ellipses and anything non-constant are refused.
func arrayLit(p *Pkg, name string, wantLen int) ([]string, error) {
	e, err := p.Var(name)
	if err != nil {
		return nil, err
	}
	cl, ok := e.(*ast.CompositeLit)
	if !ok {
		return nil, fmt.Errorf("%s: initializer is not a composite literal", name)
	}
	at, ok := cl.Type.(*ast.ArrayType)
	if !ok || at.Len == nil {
		return nil, fmt.Errorf("%s: not a fixed-size array literal", name)
	}
	n, err := p.EvalInt(at.Len)
	if err != nil {
		return nil, fmt.Errorf("%s: array length: %w", name, err)
	}
	if n != fmt.Sprint(wantLen) {
		return nil, fmt.Errorf("%s: array length %s, expected %d", name, n, wantLen)
	}
	var out []string
	for _, el := range cl.Elts {
		if _, keyed := el.(*ast.KeyValueExpr); keyed {
			return nil, fmt.Errorf("%s: keyed element not supported", name)
		}
		v, err := p.EvalInt(el)
		if err != nil {
			return nil, fmt.Errorf("%s: element %d: %w", name, len(out), err)
		}
		if strings.HasPrefix(v, "-") {
			return nil, fmt.Errorf("%s: negative element", name)
		}
		out = append(out, v)
	}
	if len(out) != wantLen {
		return nil, fmt.Errorf("%s: %d elements, expected %d", name, len(out), wantLen)
	}
	return out, nil
}

// localConsts returns the integer constants declared with `const` inside the
// body of a function, evaluated in declaration order (later ones may refer to
// earlier ones and to package-level constants).
func localConsts(p *Pkg, fn string) (map[string]string, error) {
	fd, err := p.Func(fn)
	if err != nil {
		return nil, err
	}
	res := map[string]string{}
	var ferr error
	ast.Inspect(fd.Body, func(n ast.Node) bool {
		ds, ok := n.(*ast.DeclStmt)
		if !ok {
			return true
		}
		gd, ok := ds.Decl.(*ast.GenDecl)
		if !ok || gd.Tok != token.CONST {
			return true
		}
		for _, s := range gd.Specs {
			vs := s.(*ast.ValueSpec)
			for j, nm := range vs.Names {
				if j >= len(vs.Values) {
					ferr = fmt.Errorf("%s: local const %s without value", fn, nm.Name)
					return false
				}
				// earlier local constants are substituted as literals
				v, err := p.EvalInt(substLocals(vs.Values[j], res))
				if err != nil {
					ferr = fmt.Errorf("%s: local const %s: %w", fn, nm.Name, err)
					return false
				}
				res[nm.Name] = v
			}
		}
		return true
	})
	return res, ferr
}

// substLocals replaces identifiers naming already evaluated local constants by literals.
func substLocals(e ast.Expr, env map[string]string) ast.Expr {
	switch x := e.(type) {
	case *ast.Ident:
		if v, ok := env[x.Name]; ok {
			return &ast.BasicLit{Kind: token.INT, Value: v}
		}
		return x
	case *ast.ParenExpr:
		return &ast.ParenExpr{X: substLocals(x.X, env)}
	case *ast.BinaryExpr:
		return &ast.BinaryExpr{X: substLocals(x.X, env), Op: x.Op, Y: substLocals(x.Y, env)}
	case *ast.UnaryExpr:
		return &ast.UnaryExpr{Op: x.Op, X: substLocals(x.X, env)}
	case *ast.CallExpr:
		args := make([]ast.Expr, len(x.Args))
		for i, a := range x.Args {
			args[i] = substLocals(a, env)
		}
		return &ast.CallExpr{Fun: x.Fun, Args: args}
	}
	return e
}

func leanNatList(name string, xs []string, perLine int) string {
	var b strings.Builder
	b.WriteString("def " + name + " : List Nat := [\n  ")
	for i, x := range xs {
		b.WriteString(x)
		if i != len(xs)-1 {
			b.WriteString(",")
			if (i+1)%perLine == 0 {
				b.WriteString("\n  ")
			} else {
				b.WriteString(" ")
			}
		}
	}
	b.WriteString("]\n")
	return b.String()
}

const trieDecl = `/-- Binary code tree (node zero one). -/
inductive Trie where
  | empty
  | leaf (sym : Nat)
  | node (zero one : Trie)
  deriving Repr, DecidableEq, Inhabited

`

type tnode struct {
	leaf     bool
	sym      int
	zero, one *tnode
}

// trieLiteral inserts every code word (MSB first) and renders the tree as a Lean term.
// A clash (a word that is a prefix of / equal to another) is an error.
func trieLiteral(codes, lens []string) (string, error) {
	root := &tnode{}
	for s := range codes {
		var c, l uint64
		fmt.Sscan(codes[s], &c)
		fmt.Sscan(lens[s], &l)
		if l == 0 || l > 32 || c>>l != 0 {
			return "", fmt.Errorf("symbol %d: code %d does not fit its length %d", s, c, l)
		}
		cur := root
		for k := int(l) - 1; k >= 0; k-- {
			if cur.leaf {
				return "", fmt.Errorf("symbol %d: code has another code word as a prefix", s)
			}
			var next **tnode
			if (c>>uint(k))&1 == 1 {
				next = &cur.one
			} else {
				next = &cur.zero
			}
			if *next == nil {
				*next = &tnode{}
			}
			cur = *next
		}
		if cur.leaf || cur.zero != nil || cur.one != nil {
			return "", fmt.Errorf("symbol %d: code word is a prefix of / equal to another", s)
		}
		cur.leaf, cur.sym = true, s
	}
	var b strings.Builder
	var rec func(n *tnode)
	rec = func(n *tnode) {
		switch {
		case n == nil:
			b.WriteString(".empty")
		case n.leaf:
			fmt.Fprintf(&b, "(.leaf %d)", n.sym)
		default:
			b.WriteString("(.node ")
			rec(n.zero)
			b.WriteString(" ")
			rec(n.one)
			b.WriteString(")")
		}
	}
	rec(root)
	return b.String(), nil
}

func init() {
	register("c04", func(repo string, args []string) (string, error) {
		p, err := LoadPkg(filepath.Join(repo, "http2/hpack"), false)
		if err != nil {
			return "", err
		}
		codes, err := arrayLit(p, "huffmanCodes", 256)
		if err != nil {
			return "", err
		}
		lens, err := arrayLit(p, "huffmanCodeLen", 256)
		if err != nil {
			return "", err
		}
		lc, err := localConsts(p, "AppendHuffmanString")
		if err != nil {
			return "", err
		}
		var b strings.Builder
		b.WriteString(Header("HPACK Huffman code tables and EOS padding constants.",
			"http2/hpack/tables.go", "http2/hpack/huffman.go"))
		b.WriteString("namespace NetVerif.Gen.Huffman\n\n")
		b.WriteString("/-- `huffmanCodes` -/\n")
		b.WriteString(leanNatList("codes", codes, 8))
		b.WriteString("\n/-- `huffmanCodeLen` -/\n")
		b.WriteString(leanNatList("lens", lens, 16))
		b.WriteString("\n")
		tl, err := trieLiteral(codes, lens)
		if err != nil {
			return "", err
		}
		b.WriteString(trieDecl)
		b.WriteString("/-- Binary decoding tree of (codes, lens), precomputed by the extractor so that the kernel\nneed not evaluate 256 insertions; Proofs.Lemmas.Huffman.checkWalks_ok / checkLeaves_ok prove it is\nexactly the tree of the two tables. -/\n")
		b.WriteString("def trieLit : Trie :=\n  " + tl + "\n\n")
		// the lazy initialisation of the decode tree: body of getRootHuffmanNode, one statement per
		// "; "-separated item, printed from the AST (comments and layout do not matter)
		fd, err := p.Func("getRootHuffmanNode")
		if err != nil {
			return "", err
		}
		var stmts []string
		for _, st := range fd.Body.List {
			var sb bytes.Buffer
			if err := printer.Fprint(&sb, p.Fset, st); err != nil {
				return "", err
			}
			stmts = append(stmts, strings.Join(strings.Fields(sb.String()), " "))
		}
		b.WriteString("/-- Statements of `getRootHuffmanNode` (the tree must only be reachable through the `sync.Once`). -/\n")
		b.WriteString(fmt.Sprintf("def rootInitBody : String := %q\n\n", strings.Join(stmts, "; ")))
		for _, c := range []string{"eosCode", "eosNBits", "eosPadByte"} {
			v, ok := lc[c]
			if !ok {
				return "", fmt.Errorf("AppendHuffmanString: local const %s not found", c)
			}
			b.WriteString("def " + c + " : Nat := " + v + "\n")
		}
		b.WriteString("\nend NetVerif.Gen.Huffman\n")
		return b.String(), nil
	})
}
