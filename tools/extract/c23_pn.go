package main

// c23: packetNumberLength / appendPacketNumber and maxPacketNumber of
// quic/packet_number.go as translated Lean definitions (Int semantics).

import (
	"path/filepath"
	"strings"
)

func init() {
	register("c23", func(repo string, args []string) (string, error) {
		p, err := LoadPkg(filepath.Join(repo, "quic"), false)
		if err != nil {
			return "", err
		}
		var b strings.Builder
		b.WriteString(Header("QUIC packet-number length/encoding translated from Go.", "quic/packet_number.go"))
		b.WriteString("namespace NetVerif.Gen.C23\n\n")
		v, err := p.ConstInt("maxPacketNumber")
		if err != nil {
			return "", err
		}
		b.WriteString("def maxPacketNumber : Int := " + v + "\n\n")
		s, err := TranslateFunc(p, "packetNumberLength", TransOpts{LeanName: "packetNumberLength", Num: "Int"})
		if err != nil {
			return "", err
		}
		b.WriteString(s + "\n")
		// total wrapper used by the call inside appendPacketNumber (0 = Go panic / fall-off, never taken)
		b.WriteString("def packetNumberLengthD (pnum largestAck : Int) : Int := (packetNumberLength pnum largestAck).getD 0\n\n")
		s, err = TranslateFunc(p, "appendPacketNumber", TransOpts{LeanName: "appendPacketNumber", Num: "Int",
			Calls: map[string]string{"packetNumberLength": "packetNumberLengthD"}})
		if err != nil {
			return "", err
		}
		b.WriteString(s + "\n")
		b.WriteString("end NetVerif.Gen.C23\n")
		return b.String(), nil
	})
}
