package main

// c29: the channel/select structure of quic/gate.go, internal/gate/gate.go and
// quic/queue.go as terms of the ChanSem DSL (lean/NetVerif/Model/ChanSem.lean).
// c58 (c58_listen.go) reuses the select translation for netutil/listen.go.
//
// Every statement shape that is not explicitly recognised is an error: a
// silently wrong term would weaken the tie between the Go source and the proofs.

import (
	"bytes"
	"fmt"
	"go/ast"
	"go/printer"
	"go/token"
	"path/filepath"
	"strconv"
	"strings"
)

func init() {
	register("c29", c29Extract)
}

// c29Src renders a node back to (gofmt-normalised, single-line) source text.
func c29Src(p *Pkg, n ast.Node) string {
	var b bytes.Buffer
	if err := printer.Fprint(&b, p.Fset, n); err != nil {
		return "<unprintable>"
	}
	return strings.Join(strings.Fields(b.String()), " ")
}

// c29SelCtx describes how channel expressions and return values of one type's
// methods map to Lean constructors.
type c29SelCtx struct {
	p     *Pkg
	chans map[string]string // source text of channel expr -> Lean constructor
	rets  map[string]string // source text of `return X` operand list -> Lean constructor
	ctx   string            // source text of the context-done receive operand ("ctx.Done()") or ""
}

func (c *c29SelCtx) arm(comm ast.Stmt) (string, error) {
	switch s := comm.(type) {
	case *ast.ExprStmt: // <-ch
		u, ok := s.X.(*ast.UnaryExpr)
		if !ok || u.Op != token.ARROW {
			return "", fmt.Errorf("unsupported comm clause %q", c29Src(c.p, comm))
		}
		t := c29Src(c.p, u.X)
		if c.ctx != "" && t == c.ctx {
			return "Arm.ctxDone", nil
		}
		ch, ok := c.chans[t]
		if !ok {
			return "", fmt.Errorf("receive from unknown channel %q", t)
		}
		return "Arm.recv " + ch, nil
	case *ast.SendStmt:
		t := c29Src(c.p, s.Chan)
		ch, ok := c.chans[t]
		if !ok {
			return "", fmt.Errorf("send on unknown channel %q", t)
		}
		if v := c29Src(c.p, s.Value); v != "struct{}{}" {
			return "", fmt.Errorf("send of %q (only struct{}{} tokens are modelled)", v)
		}
		return "Arm.send " + ch, nil
	}
	return "", fmt.Errorf("unsupported comm clause %q", c29Src(c.p, comm))
}

func (c *c29SelCtx) out(body []ast.Stmt) (string, error) {
	if len(body) == 0 {
		return "Out.fall", nil
	}
	if len(body) == 1 {
		if r, ok := body[0].(*ast.ReturnStmt); ok {
			parts := []string{}
			for _, e := range r.Results {
				parts = append(parts, c29Src(c.p, e))
			}
			key := strings.Join(parts, ", ")
			if v, ok := c.rets[key]; ok {
				return "Out.ret " + v, nil
			}
			return "", fmt.Errorf("unsupported return value %q in select arm", key)
		}
	}
	return "", fmt.Errorf("select arm body must be empty or a single return, got %d statements starting %q",
		len(body), c29Src(c.p, body[0]))
}

// sel translates one statement (select / bare send / bare receive) to `Sel.mk guard arms dflt`.
func (c *c29SelCtx) sel(st ast.Stmt, guard string) (string, error) {
	switch s := st.(type) {
	case *ast.SelectStmt:
		arms := []string{}
		dflt := "none"
		seenDefault := false
		for _, cl := range s.Body.List {
			cc := cl.(*ast.CommClause)
			o, err := c.out(cc.Body)
			if err != nil {
				return "", err
			}
			if cc.Comm == nil {
				if seenDefault {
					return "", fmt.Errorf("two default clauses")
				}
				seenDefault = true
				dflt = "(some (" + o + "))"
				continue
			}
			a, err := c.arm(cc.Comm)
			if err != nil {
				return "", err
			}
			arms = append(arms, "("+a+", "+o+")")
		}
		return "Sel.mk " + guard + " [" + strings.Join(arms, ", ") + "] " + dflt, nil
	case *ast.SendStmt, *ast.ExprStmt:
		a, err := c.arm(st)
		if err != nil {
			return "", err
		}
		return "Sel.mk " + guard + " [(" + a + ", Out.fall)] none", nil
	}
	return "", fmt.Errorf("unsupported statement %q", c29Src(c.p, st))
}

// method translates a body consisting of selects, bare channel operations and
// `if <boolParam> { op } else { op }`.
func (c *c29SelCtx) method(fd *ast.FuncDecl) (string, error) {
	boolParam := ""
	for _, f := range fd.Type.Params.List {
		if id, ok := f.Type.(*ast.Ident); ok && id.Name == "bool" {
			if len(f.Names) != 1 || boolParam != "" {
				return "", fmt.Errorf("%s: more than one bool parameter", fd.Name.Name)
			}
			boolParam = f.Names[0].Name
		}
	}
	out := []string{}
	for _, st := range fd.Body.List {
		if is, ok := st.(*ast.IfStmt); ok {
			id, isId := is.Cond.(*ast.Ident)
			if !isId || boolParam == "" || id.Name != boolParam || is.Init != nil {
				return "", fmt.Errorf("%s: unsupported if condition %q", fd.Name.Name, c29Src(c.p, is.Cond))
			}
			eb, ok := is.Else.(*ast.BlockStmt)
			if !ok || len(is.Body.List) != 1 || len(eb.List) != 1 {
				return "", fmt.Errorf("%s: if/else must hold exactly one channel operation each", fd.Name.Name)
			}
			for _, br := range []struct {
				st ast.Stmt
				g  string
			}{{is.Body.List[0], "(some true)"}, {eb.List[0], "(some false)"}} {
				if _, isSel := br.st.(*ast.SelectStmt); isSel {
					return "", fmt.Errorf("%s: select inside if is not modelled", fd.Name.Name)
				}
				s, err := c.sel(br.st, br.g)
				if err != nil {
					return "", fmt.Errorf("%s: %w", fd.Name.Name, err)
				}
				out = append(out, s)
			}
			continue
		}
		s, err := c.sel(st, "none")
		if err != nil {
			return "", fmt.Errorf("%s: %w", fd.Name.Name, err)
		}
		out = append(out, s)
	}
	return "[" + strings.Join(out, ",\n      ") + "]", nil
}

// c29ChanCaps reads `field: make(chan struct{}, N)` entries of a composite literal.
// Returns field -> capacity expression text ("" when make has no capacity argument).
func c29ChanCaps(p *Pkg, cl *ast.CompositeLit) (map[string]string, error) {
	res := map[string]string{}
	for _, e := range cl.Elts {
		kv, ok := e.(*ast.KeyValueExpr)
		if !ok {
			return nil, fmt.Errorf("unkeyed composite literal")
		}
		call, ok := kv.Value.(*ast.CallExpr)
		if !ok {
			continue
		}
		if id, ok := call.Fun.(*ast.Ident); !ok || id.Name != "make" {
			continue
		}
		if len(call.Args) < 1 || len(call.Args) > 2 || c29Src(p, call.Args[0]) != "chan struct{}" {
			return nil, fmt.Errorf("unsupported make: %q", c29Src(p, call))
		}
		capTxt := ""
		if len(call.Args) == 2 {
			capTxt = c29Src(p, call.Args[1])
		}
		res[c29Src(p, kv.Key)] = capTxt
	}
	return res, nil
}

func c29FindCompositeLit(fd *ast.FuncDecl, typeName string) *ast.CompositeLit {
	var found *ast.CompositeLit
	ast.Inspect(fd.Body, func(n ast.Node) bool {
		if cl, ok := n.(*ast.CompositeLit); ok && found == nil {
			if baseTypeName(cl.Type) == typeName {
				found = cl
				return false
			}
		}
		return true
	})
	return found
}

func c29BodyTexts(p *Pkg, fd *ast.FuncDecl) []string {
	r := []string{}
	for _, s := range fd.Body.List {
		r = append(r, c29Src(p, s))
	}
	return r
}

func c29Eq(a []string, b ...string) bool {
	if len(a) != len(b) {
		return false
	}
	for i := range a {
		if a[i] != b[i] {
			return false
		}
	}
	return true
}

type c29GateNames struct {
	typ, ctor, ctorLit                   string
	lock, waitAndLock, lockIfSet, unlock string
	unlockFunc                           string // "" when absent
	recv                                 string
}

func c29Gate(p *Pkg, file string, n c29GateNames) (string, error) {
	ctx := &c29SelCtx{p: p,
		chans: map[string]string{n.recv + ".set": "GCh.set", n.recv + ".unset": "GCh.unset"},
		rets:  map[string]string{"true": "GRes.tt", "false": "GRes.ff", "nil": "GRes.nil", "ctx.Err()": "GRes.err"},
		ctx:   "ctx.Done()"}
	// capacities
	lit, err := p.Func(n.ctorLit)
	if err != nil {
		return "", err
	}
	cl := c29FindCompositeLit(lit, n.typ)
	if cl == nil {
		return "", fmt.Errorf("%s: no %s{...} literal", n.ctorLit, n.typ)
	}
	caps, err := c29ChanCaps(p, cl)
	if err != nil {
		return "", err
	}
	capOf := func(f string) (string, error) {
		t, ok := caps[f]
		if !ok {
			return "", fmt.Errorf("%s: field %s is not made in the literal", n.ctorLit, f)
		}
		if t == "" {
			return "0", nil
		}
		v, err := strconv.ParseUint(t, 0, 32)
		if err != nil {
			return "", fmt.Errorf("%s: capacity of %s is not a literal: %q", n.ctorLit, f, t)
		}
		return strconv.FormatUint(v, 10), nil
	}
	if len(caps) != 2 {
		return "", fmt.Errorf("%s: expected exactly the channels set and unset, got %v", n.ctorLit, caps)
	}
	capSet, err := capOf("set")
	if err != nil {
		return "", err
	}
	capUnset, err := capOf("unset")
	if err != nil {
		return "", err
	}
	var b strings.Builder
	b.WriteString("  { capSet := " + capSet + ", capUnset := " + capUnset + ",\n")
	for _, m := range []struct{ lean, goName string }{
		{"lock", n.lock}, {"waitAndLock", n.waitAndLock}, {"lockIfSet", n.lockIfSet}, {"unlock", n.unlock}} {
		fd, err := p.Func(n.typ + "." + m.goName)
		if err != nil {
			return "", err
		}
		if len(fd.Recv.List[0].Names) != 1 || fd.Recv.List[0].Names[0].Name != n.recv {
			return "", fmt.Errorf("%s: receiver is not named %s", m.goName, n.recv)
		}
		s, err := ctx.method(fd)
		if err != nil {
			return "", err
		}
		b.WriteString("    " + m.lean + " := " + s + ",\n")
	}
	// constructor
	newArg := ""
	ctor, err := p.Func(n.ctor)
	if err != nil {
		return "", err
	}
	texts := c29BodyTexts(p, ctor)
	if n.ctor != n.ctorLit {
		// quic: g := newLockedGate(); g.unlock(<lit>); return g
		switch {
		case c29Eq(texts, "g := "+n.ctorLit+"()", "g."+n.unlock+"(false)", "return g"):
			newArg = "(some false)"
		case c29Eq(texts, "g := "+n.ctorLit+"()", "g."+n.unlock+"(true)", "return g"):
			newArg = "(some true)"
		default:
			return "", fmt.Errorf("%s: unsupported body %q", n.ctor, texts)
		}
	} else {
		// internal: g := Gate{...}; g.Unlock(set); return g   with parameter `set bool`
		if len(texts) != 3 || !strings.HasPrefix(texts[0], "g := "+n.typ+"{") ||
			texts[1] != "g."+n.unlock+"(set)" || texts[2] != "return g" {
			return "", fmt.Errorf("%s: unsupported body %q", n.ctor, texts)
		}
		if len(ctor.Type.Params.List) != 1 || len(ctor.Type.Params.List[0].Names) != 1 ||
			ctor.Type.Params.List[0].Names[0].Name != "set" || c29Src(p, ctor.Type.Params.List[0].Type) != "bool" {
			return "", fmt.Errorf("%s: parameter list is not (set bool)", n.ctor)
		}
		newArg = "none"
	}
	b.WriteString("    newArg := " + newArg + ",\n")
	if n.unlockFunc != "" {
		fd, err := p.Func(n.typ + "." + n.unlockFunc)
		if err != nil {
			return "", err
		}
		if !c29Eq(c29BodyTexts(p, fd), n.recv+"."+n.unlock+"(f())") {
			return "", fmt.Errorf("%s: body is not %s.%s(f())", n.unlockFunc, n.recv, n.unlock)
		}
	}
	b.WriteString("    unlockFuncIsUnlock := true }\n")
	_ = file
	return b.String(), nil
}

// ---- queue ----

func c29BExp(p *Pkg, e ast.Expr) (string, error) {
	switch x := e.(type) {
	case *ast.ParenExpr:
		return c29BExp(p, x.X)
	case *ast.Ident:
		if x.Name == "true" || x.Name == "false" {
			return "(BExp.lit " + x.Name + ")", nil
		}
	case *ast.UnaryExpr:
		if x.Op == token.NOT {
			a, err := c29BExp(p, x.X)
			if err != nil {
				return "", err
			}
			return "(BExp.not " + a + ")", nil
		}
	case *ast.BinaryExpr:
		if x.Op == token.LOR {
			a, err := c29BExp(p, x.X)
			if err != nil {
				return "", err
			}
			b, err := c29BExp(p, x.Y)
			if err != nil {
				return "", err
			}
			return "(BExp.or " + a + " " + b + ")", nil
		}
		switch c29Src(p, e) {
		case "q.err != nil":
			return "BExp.errSet", nil
		case "q.err == nil":
			return "(BExp.not BExp.errSet)", nil
		case "len(q.q) > 0":
			return "BExp.nonEmpty", nil
		case "len(q.q) == 0":
			return "(BExp.not BExp.nonEmpty)", nil
		}
	}
	return "", fmt.Errorf("unsupported condition %q", c29Src(p, e))
}

func c29QueueMethod(p *Pkg, name string) (string, error) {
	fd, err := p.Func("queue." + name)
	if err != nil {
		return "", err
	}
	if len(fd.Recv.List[0].Names) != 1 || fd.Recv.List[0].Names[0].Name != "q" {
		return "", fmt.Errorf("queue.%s: receiver is not named q", name)
	}
	out := []string{}
	list := fd.Body.List
	for i := 0; i < len(list); i++ {
		st := list[i]
		t := c29Src(p, st)
		switch {
		case t == "var zero T":
			// declaration of the zero value: no effect
		case t == "q.gate.lock()":
			out = append(out, "QStmt.gate GMeth.lock none")
		case t == "defer q.unlock()":
			out = append(out, "QStmt.deferUnlock")
		case t == "if err := q.gate.waitAndLock(ctx); err != nil { return zero, err }":
			out = append(out, "QStmt.gate GMeth.waitAndLock none", "QStmt.retIfGateErr QRet.gateErr")
		case t == "if q.err == nil { q.err = err }":
			out = append(out, "QStmt.setErrIfNil")
		case t == "q.q = append(q.q, v)":
			out = append(out, "QStmt.append")
		case t == "return true":
			out = append(out, "QStmt.ret QRet.tt")
		case t == "return false":
			out = append(out, "QStmt.ret QRet.ff")
		case t == "return v, nil":
			out = append(out, "QStmt.ret QRet.item")
		case t == "v := q.q[0]":
			if i+3 >= len(list) ||
				c29Src(p, list[i+1]) != "copy(q.q[:], q.q[1:])" ||
				c29Src(p, list[i+2]) != "q.q[len(q.q)-1] = zero" ||
				c29Src(p, list[i+3]) != "q.q = q.q[:len(q.q)-1]" {
				return "", fmt.Errorf("queue.%s: pop idiom changed near %q", name, t)
			}
			out = append(out, "QStmt.popFront")
			i += 3
		default:
			if is, ok := st.(*ast.IfStmt); ok && is.Init == nil && is.Else == nil && len(is.Body.List) == 1 {
				c, err := c29BExp(p, is.Cond)
				if err != nil {
					return "", fmt.Errorf("queue.%s: %w", name, err)
				}
				var v string
				switch c29Src(p, is.Body.List[0]) {
				case "return false":
					v = "QRet.ff"
				case "return true":
					v = "QRet.tt"
				case "return zero, q.err":
					v = "QRet.queueErr"
				default:
					return "", fmt.Errorf("queue.%s: unsupported if body %q", name, c29Src(p, is.Body.List[0]))
				}
				out = append(out, "QStmt.retIf "+c+" "+v)
				continue
			}
			if es, ok := st.(*ast.ExprStmt); ok {
				if call, ok := es.X.(*ast.CallExpr); ok && c29Src(p, call.Fun) == "q.gate.unlock" && len(call.Args) == 1 {
					c, err := c29BExp(p, call.Args[0])
					if err != nil {
						return "", fmt.Errorf("queue.%s: %w", name, err)
					}
					out = append(out, "QStmt.gate GMeth.unlock (some "+c+")")
					continue
				}
			}
			return "", fmt.Errorf("queue.%s: unsupported statement %q", name, t)
		}
	}
	return "[" + strings.Join(out, ", ") + "]", nil
}

func c29Extract(repo string, args []string) (string, error) {
	var b strings.Builder
	b.WriteString(Header("Channel/select structure of the QUIC gate and queue as ChanSem DSL terms.",
		"quic/gate.go", "quic/queue.go", "internal/gate/gate.go"))
	b.WriteString("import NetVerif.Model.ChanSem\nnamespace NetVerif.Gen.C29\nopen NetVerif.Model.ChanSem\n\n")

	pq, err := LoadPkg(filepath.Join(repo, "quic"), false)
	if err != nil {
		return "", err
	}
	g, err := c29Gate(pq, "quic/gate.go", c29GateNames{typ: "gate", ctor: "newGate", ctorLit: "newLockedGate",
		lock: "lock", waitAndLock: "waitAndLock", lockIfSet: "lockIfSet", unlock: "unlock", unlockFunc: "unlockFunc", recv: "g"})
	if err != nil {
		return "", fmt.Errorf("quic/gate.go: %w", err)
	}
	b.WriteString("def quicGate : GateSrc :=\n" + g + "\n")

	pi, err := LoadPkg(filepath.Join(repo, "internal/gate"), false)
	if err != nil {
		return "", err
	}
	g, err = c29Gate(pi, "internal/gate/gate.go", c29GateNames{typ: "Gate", ctor: "New", ctorLit: "New",
		lock: "Lock", waitAndLock: "WaitAndLock", lockIfSet: "LockIfSet", unlock: "Unlock", recv: "g"})
	if err != nil {
		return "", fmt.Errorf("internal/gate/gate.go: %w", err)
	}
	b.WriteString("def internalGate : GateSrc :=\n" + g + "\n")

	b.WriteString("def quicQueue : QueueSrc :=\n  { ")
	for _, m := range []string{"close", "put", "get", "unlock"} {
		s, err := c29QueueMethod(pq, m)
		if err != nil {
			return "", fmt.Errorf("quic/queue.go: %w", err)
		}
		b.WriteString(m + " := " + s + ",\n    ")
	}
	nq, err := pq.Func("newQueue")
	if err != nil {
		return "", err
	}
	if !c29Eq(c29BodyTexts(pq, nq), "return queue[T]{gate: newGate()}") {
		return "", fmt.Errorf("quic/queue.go: newQueue: unsupported body %q", c29BodyTexts(pq, nq))
	}
	b.WriteString("newUsesNewGate := true }\n\nend NetVerif.Gen.C29\n")
	return b.String(), nil
}
