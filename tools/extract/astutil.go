package main

// Helpers shared by extractors: parsing, declaration lookup, and a small
// constant evaluator (go/constant) that resolves package-level constants
// syntactically, so no type-checking of the package's imports is needed.

import (
	"fmt"
	"go/ast"
	"go/constant"
	"go/parser"
	"go/token"
	"os"
	"path/filepath"
	"strconv"
	"strings"
)

// Pkg is the set of non-test files of one directory.
type Pkg struct {
	Fset  *token.FileSet
	Files map[string]*ast.File // by base name
	Dir   string
	// consts: name -> (expr, iota value, implicit-repeat expr resolved)
	consts map[string]constDecl
	cache  map[string]constant.Value
}

type constDecl struct {
	expr ast.Expr
	iota int64
}

// LoadPkg parses every .go file in dir (skipping _test.go unless withTests).
func LoadPkg(dir string, withTests bool) (*Pkg, error) {
	p := &Pkg{Fset: token.NewFileSet(), Files: map[string]*ast.File{}, Dir: dir,
		consts: map[string]constDecl{}, cache: map[string]constant.Value{}}
	ents, err := os.ReadDir(dir)
	if err != nil {
		return nil, err
	}
	for _, e := range ents {
		n := e.Name()
		if !strings.HasSuffix(n, ".go") || (!withTests && strings.HasSuffix(n, "_test.go")) {
			continue
		}
		f, err := parser.ParseFile(p.Fset, filepath.Join(dir, n), nil, parser.ParseComments)
		if err != nil {
			return nil, err
		}
		p.Files[n] = f
	}
	for _, f := range p.Files {
		for _, d := range f.Decls {
			gd, ok := d.(*ast.GenDecl)
			if !ok || gd.Tok != token.CONST {
				continue
			}
			var last []ast.Expr
			for i, s := range gd.Specs {
				vs := s.(*ast.ValueSpec)
				vals := vs.Values
				if len(vals) == 0 {
					vals = last
				} else {
					last = vals
				}
				for j, name := range vs.Names {
					if j < len(vals) {
						p.consts[name.Name] = constDecl{expr: vals[j], iota: int64(i)}
					}
				}
			}
		}
	}
	return p, nil
}

// Func finds a top-level function or method. For methods use "Recv.Name"
// (pointer receivers and generic receivers are matched by base type name).
func (p *Pkg) Func(name string) (*ast.FuncDecl, error) {
	recv, fn := "", name
	if i := strings.Index(name, "."); i >= 0 {
		recv, fn = name[:i], name[i+1:]
	}
	for _, f := range p.Files {
		for _, d := range f.Decls {
			fd, ok := d.(*ast.FuncDecl)
			if !ok || fd.Name.Name != fn {
				continue
			}
			if recv == "" && fd.Recv == nil {
				return fd, nil
			}
			if recv != "" && fd.Recv != nil && len(fd.Recv.List) == 1 && baseTypeName(fd.Recv.List[0].Type) == recv {
				return fd, nil
			}
		}
	}
	return nil, fmt.Errorf("function %s not found in %s", name, p.Dir)
}

func baseTypeName(e ast.Expr) string {
	switch t := e.(type) {
	case *ast.StarExpr:
		return baseTypeName(t.X)
	case *ast.Ident:
		return t.Name
	case *ast.IndexExpr:
		return baseTypeName(t.X)
	case *ast.IndexListExpr:
		return baseTypeName(t.X)
	case *ast.ParenExpr:
		return baseTypeName(t.X)
	}
	return ""
}

// Var finds the initializer expression of a package-level var.
func (p *Pkg) Var(name string) (ast.Expr, error) {
	for _, f := range p.Files {
		for _, d := range f.Decls {
			gd, ok := d.(*ast.GenDecl)
			if !ok || gd.Tok != token.VAR {
				continue
			}
			for _, s := range gd.Specs {
				vs := s.(*ast.ValueSpec)
				for j, n := range vs.Names {
					if n.Name == name && j < len(vs.Values) {
						return vs.Values[j], nil
					}
				}
			}
		}
	}
	return nil, fmt.Errorf("var %s not found in %s", name, p.Dir)
}

// Const evaluates a package-level constant.
func (p *Pkg) Const(name string) (constant.Value, error) {
	if v, ok := p.cache[name]; ok {
		return v, nil
	}
	d, ok := p.consts[name]
	if !ok {
		return nil, fmt.Errorf("const %s not found in %s", name, p.Dir)
	}
	v, err := p.Eval(d.expr, d.iota)
	if err != nil {
		return nil, fmt.Errorf("const %s: %w", name, err)
	}
	p.cache[name] = v
	return v, nil
}

// ConstInt evaluates a package-level integer constant as a decimal string.
func (p *Pkg) ConstInt(name string) (string, error) {
	v, err := p.Const(name)
	if err != nil {
		return "", err
	}
	v = constant.ToInt(v)
	if v.Kind() != constant.Int {
		return "", fmt.Errorf("const %s is not an integer (%s)", name, v)
	}
	return v.ExactString(), nil
}

var builtinConsts = map[string]constant.Value{
	"true": constant.MakeBool(true), "false": constant.MakeBool(false),
}

var mathConsts = map[string]string{
	"MaxInt8": "127", "MaxInt16": "32767", "MaxInt32": "2147483647", "MaxInt64": "9223372036854775807",
	"MinInt32": "-2147483648", "MinInt64": "-9223372036854775808",
	"MaxUint8": "255", "MaxUint16": "65535", "MaxUint32": "4294967295", "MaxUint64": "18446744073709551615",
	"MaxInt": "9223372036854775807",
}

// Eval evaluates a constant expression (literals, operators, shifts,
// references to package constants, iota, conversions to basic types,
// math.MaxXxx, len("literal")).
func (p *Pkg) Eval(e ast.Expr, iota int64) (constant.Value, error) {
	switch x := e.(type) {
	case *ast.BasicLit:
		v := constant.MakeFromLiteral(x.Value, x.Kind, 0)
		if v.Kind() == constant.Unknown {
			return nil, fmt.Errorf("bad literal %s", x.Value)
		}
		return v, nil
	case *ast.ParenExpr:
		return p.Eval(x.X, iota)
	case *ast.Ident:
		if x.Name == "iota" {
			return constant.MakeInt64(iota), nil
		}
		if v, ok := builtinConsts[x.Name]; ok {
			return v, nil
		}
		return p.Const(x.Name)
	case *ast.SelectorExpr:
		if id, ok := x.X.(*ast.Ident); ok && id.Name == "math" {
			if s, ok := mathConsts[x.Sel.Name]; ok {
				return constant.MakeFromLiteral(s, token.INT, 0), nil
			}
		}
		return nil, fmt.Errorf("unsupported selector %s in constant expression", exprString(e))
	case *ast.UnaryExpr:
		v, err := p.Eval(x.X, iota)
		if err != nil {
			return nil, err
		}
		return constant.UnaryOp(x.Op, v, 0), nil
	case *ast.BinaryExpr:
		a, err := p.Eval(x.X, iota)
		if err != nil {
			return nil, err
		}
		b, err := p.Eval(x.Y, iota)
		if err != nil {
			return nil, err
		}
		switch x.Op {
		case token.SHL, token.SHR:
			s, ok := constant.Uint64Val(constant.ToInt(b))
			if !ok {
				return nil, fmt.Errorf("bad shift count")
			}
			return constant.Shift(constant.ToInt(a), x.Op, uint(s)), nil
		case token.EQL, token.NEQ, token.LSS, token.LEQ, token.GTR, token.GEQ:
			return constant.MakeBool(constant.Compare(a, x.Op, b)), nil
		case token.QUO:
			if a.Kind() == constant.Int && b.Kind() == constant.Int {
				return constant.BinaryOp(a, token.QUO_ASSIGN, b), nil // integer division
			}
		}
		return constant.BinaryOp(a, x.Op, b), nil
	case *ast.CallExpr:
		if len(x.Args) == 1 {
			if id, ok := x.Fun.(*ast.Ident); ok {
				if id.Name == "len" {
					v, err := p.Eval(x.Args[0], iota)
					if err == nil && v.Kind() == constant.String {
						return constant.MakeInt64(int64(len(constant.StringVal(v)))), nil
					}
					return nil, fmt.Errorf("len of non-constant")
				}
				// conversion T(x): value-preserving for in-range constants
				return p.Eval(x.Args[0], iota)
			}
			if _, ok := x.Fun.(*ast.SelectorExpr); ok { // pkg.T(x)
				return p.Eval(x.Args[0], iota)
			}
		}
		return nil, fmt.Errorf("unsupported call in constant expression: %s", exprString(e))
	}
	return nil, fmt.Errorf("unsupported constant expression %T", e)
}

func exprString(e ast.Expr) string {
	switch x := e.(type) {
	case *ast.Ident:
		return x.Name
	case *ast.SelectorExpr:
		return exprString(x.X) + "." + x.Sel.Name
	case *ast.BasicLit:
		return x.Value
	}
	return fmt.Sprintf("%T", e)
}

// EvalInt evaluates an expression to an integer decimal string.
func (p *Pkg) EvalInt(e ast.Expr) (string, error) {
	v, err := p.Eval(e, 0)
	if err != nil {
		return "", err
	}
	v = constant.ToInt(v)
	if v.Kind() != constant.Int {
		return "", fmt.Errorf("not an integer constant")
	}
	return v.ExactString(), nil
}

// EvalString evaluates a constant string expression.
func (p *Pkg) EvalString(e ast.Expr) (string, error) {
	v, err := p.Eval(e, 0)
	if err != nil {
		return "", err
	}
	if v.Kind() != constant.String {
		return "", fmt.Errorf("not a string constant")
	}
	return constant.StringVal(v), nil
}

// LeanBytes renders a Go string as a Lean `List Nat` of its bytes.
func LeanBytes(s string) string {
	var b strings.Builder
	b.WriteString("[")
	for i := 0; i < len(s); i++ {
		if i > 0 {
			b.WriteString(", ")
		}
		b.WriteString(strconv.Itoa(int(s[i])))
	}
	b.WriteString("]")
	return b.String()
}

// Header is the banner every generated file starts with.
func Header(what string, sources ...string) string {
	return "/- GENERATED by /verif/tools/extract from " + strings.Join(sources, ", ") +
		" — do not edit. " + what + " -/\n"
}

// lowerFirst lower-cases the first byte (Go exported name -> Lean name).
func lowerFirst(s string) string {
	if s == "" {
		return s
	}
	return strings.ToLower(s[:1]) + s[1:]
}
