package main

// c21: quic/stream_limits.go — constants and the straight-line integer parts of
// remoteStreamLimits (init, maybeUpdateMax heuristic) and localStreamLimits
// (gate condition, setMax, connHasClosed, wasOpened), plus configDefault of
// config.go, as translated Lean definitions.
//
// The translator has no notion of the gate (a channel-based monitor) nor of
// sentVal, so this extractor derives gate-free variants of the methods
// SYNTACTICALLY and fails loudly when a method has any other shape:
//   * `lim.gate.lock()`, `lim.unlock()`, `defer lim.unlock()` statements are dropped;
//   * the argument of `lim.gate.unlock(<cond>)` in localStreamLimits.unlock becomes gateCond;
//   * `lim.sendMax.setUnsent()` becomes the field assignment `lim.sendUnsent = 1`.

import (
	"bytes"
	"fmt"
	"go/ast"
	"go/parser"
	"go/printer"
	"go/token"
	"path/filepath"
	"strings"
)

func init() {
	register("c21", func(repo string, args []string) (string, error) {
		p, err := LoadPkg(filepath.Join(repo, "quic"), false)
		if err != nil {
			return "", err
		}
		var b strings.Builder
		b.WriteString(Header("QUIC stream-count limit arithmetic translated from Go.", "quic/stream_limits.go", "quic/config.go", "quic/quic.go"))
		b.WriteString("namespace NetVerif.Gen.C21\n\n")
		for _, c := range []string{"implicitStreamLimit", "maxStreamsLimit"} {
			v, err := p.ConstInt(c)
			if err != nil {
				return "", err
			}
			b.WriteString("def " + c + " : Int := " + v + "\n")
		}
		b.WriteString("\n")

		// configDefault: rename the parameter `def` (a Lean keyword).
		cd, err := p.Func("configDefault")
		if err != nil {
			return "", err
		}
		ast.Inspect(cd, func(n ast.Node) bool {
			if id, ok := n.(*ast.Ident); ok && id.Name == "def" {
				id.Name = "dflt"
			}
			return true
		})
		// default arguments of maxBidiRemoteStreams / maxUniRemoteStreams
		for _, fn := range []string{"maxBidiRemoteStreams", "maxUniRemoteStreams"} {
			d, l, err := c21ConfigArgs(p, fn)
			if err != nil {
				return "", err
			}
			b.WriteString(fmt.Sprintf("def %sDefault : Int := %s\ndef %sLimit : Int := %s\n", fn, d, fn, l))
		}
		b.WriteString("\n")

		// gate-free variants
		if err := c21SynthGateCond(p); err != nil {
			return "", err
		}
		for _, m := range []string{"setMax", "connHasClosed", "wasOpened"} {
			if err := c21SynthGateFree(p, "localStreamLimits", m); err != nil {
				return "", err
			}
		}
		if err := c21RewriteSetUnsent(p); err != nil {
			return "", err
		}

		type job struct {
			fn string
			o  TransOpts
		}
		jobs := []job{
			{"configDefault", TransOpts{LeanName: "configDefault", Num: "Int"}},
			{"remoteStreamLimits.init", TransOpts{LeanName: "remoteInit", Num: "Int", Fields: []string{"max", "opened", "maxOpen"}, ReturnFields: true}},
			{"remoteStreamLimits.maybeUpdateMax", TransOpts{LeanName: "maybeUpdateMax", Num: "Int",
				Fields: []string{"max", "opened", "closed", "maxOpen", "sendUnsent"}, ReturnFields: true}},
			{"localStreamLimits.verifGateCond", TransOpts{LeanName: "gateCond", Num: "Int", Fields: []string{"opened", "max"}}},
			{"localStreamLimits.verif_setMax", TransOpts{LeanName: "localSetMax", Num: "Int", Fields: []string{"max"}, ReturnFields: true}},
			{"localStreamLimits.verif_connHasClosed", TransOpts{LeanName: "localConnHasClosed", Num: "Int", Fields: []string{"opened"}, ReturnFields: true}},
			{"localStreamLimits.verif_wasOpened", TransOpts{LeanName: "localWasOpened", Num: "Int", Fields: []string{"opened"}}},
		}
		for _, j := range jobs {
			s, err := TranslateFunc(p, j.fn, j.o)
			if err != nil {
				return "", err
			}
			b.WriteString(s + "\n")
		}
		b.WriteString("end NetVerif.Gen.C21\n")
		return b.String(), nil
	})
}

// c21ConfigArgs returns the (default, limit) arguments of
// `return configDefault(c.X, <default>, <limit>)`.
func c21ConfigArgs(p *Pkg, fn string) (string, string, error) {
	fd, err := p.Func("Config." + fn)
	if err != nil {
		return "", "", err
	}
	if len(fd.Body.List) != 1 {
		return "", "", fmt.Errorf("%s: unexpected shape", fn)
	}
	rs, ok := fd.Body.List[0].(*ast.ReturnStmt)
	if !ok || len(rs.Results) != 1 {
		return "", "", fmt.Errorf("%s: unexpected shape", fn)
	}
	call, ok := rs.Results[0].(*ast.CallExpr)
	if !ok || exprString(call.Fun) != "configDefault" || len(call.Args) != 3 {
		return "", "", fmt.Errorf("%s: not a configDefault call", fn)
	}
	d, err := p.EvalInt(call.Args[1])
	if err != nil {
		return "", "", err
	}
	l, err := p.EvalInt(call.Args[2])
	if err != nil {
		return "", "", err
	}
	return d, l, nil
}

func c21Print(p *Pkg, n ast.Node) string {
	var buf bytes.Buffer
	printer.Fprint(&buf, p.Fset, n)
	return buf.String()
}

func c21AddSynth(p *Pkg, name, src string) error {
	f, err := parser.ParseFile(p.Fset, "zz_verif_"+name+".go", "package quic\n"+src, 0)
	if err != nil {
		return fmt.Errorf("synthesised %s does not parse: %v\n%s", name, err, src)
	}
	p.Files["zz_verif_"+name+".go"] = f
	return nil
}

// c21SynthGateCond: localStreamLimits.unlock must be exactly `lim.gate.unlock(<cond>)`.
func c21SynthGateCond(p *Pkg) error {
	fd, err := p.Func("localStreamLimits.unlock")
	if err != nil {
		return err
	}
	if len(fd.Body.List) == 1 {
		if es, ok := fd.Body.List[0].(*ast.ExprStmt); ok {
			if call, ok := es.X.(*ast.CallExpr); ok && c21Print(p, call.Fun) == "lim.gate.unlock" && len(call.Args) == 1 {
				return c21AddSynth(p, "gatecond",
					"func (lim *localStreamLimits) verifGateCond() bool { return "+c21Print(p, call.Args[0])+" }\n")
			}
		}
	}
	return fmt.Errorf("localStreamLimits.unlock: unexpected shape")
}

// c21SynthGateFree builds verif_<m>: the method with the gate statements removed.
func c21SynthGateFree(p *Pkg, recv, m string) error {
	fd, err := p.Func(recv + "." + m)
	if err != nil {
		return err
	}
	var keep []string
	locks, unlocks := 0, 0
	for _, st := range fd.Body.List {
		switch x := st.(type) {
		case *ast.ExprStmt:
			s := c21Print(p, x.X)
			if s == "lim.gate.lock()" {
				locks++
				continue
			}
			if s == "lim.unlock()" {
				unlocks++
				continue
			}
		case *ast.DeferStmt:
			if c21Print(p, x.Call) == "lim.unlock()" {
				unlocks++
				continue
			}
		}
		keep = append(keep, c21Print(p, st))
	}
	if locks != 1 || unlocks != 1 {
		return fmt.Errorf("%s.%s: expected exactly one gate lock and one unlock, got %d/%d", recv, m, locks, unlocks)
	}
	sig := c21Print(p, fd.Type) // "func(params) results"
	sig = strings.TrimPrefix(sig, "func")
	src := "func (lim *" + recv + ") verif_" + m + sig + " {\n" + strings.Join(keep, "\n") + "\n}\n"
	return c21AddSynth(p, m, src)
}

// c21RewriteSetUnsent replaces `lim.sendMax.setUnsent()` in maybeUpdateMax by `lim.sendUnsent = 1`.
func c21RewriteSetUnsent(p *Pkg) error {
	fd, err := p.Func("remoteStreamLimits.maybeUpdateMax")
	if err != nil {
		return err
	}
	n := 0
	var walk func(list []ast.Stmt)
	walk = func(list []ast.Stmt) {
		for i, st := range list {
			switch x := st.(type) {
			case *ast.ExprStmt:
				if c21Print(p, x.X) == "lim.sendMax.setUnsent()" {
					list[i] = &ast.AssignStmt{
						Lhs: []ast.Expr{&ast.SelectorExpr{X: ast.NewIdent("lim"), Sel: ast.NewIdent("sendUnsent")}},
						Tok: token.ASSIGN,
						Rhs: []ast.Expr{&ast.BasicLit{Kind: token.INT, Value: "1"}},
					}
					n++
				}
			case *ast.IfStmt:
				walk(x.Body.List)
				if e, ok := x.Else.(*ast.BlockStmt); ok {
					walk(e.List)
				}
			case *ast.BlockStmt:
				walk(x.List)
			}
		}
	}
	walk(fd.Body.List)
	if n != 1 {
		return fmt.Errorf("maybeUpdateMax: expected exactly one lim.sendMax.setUnsent() call, found %d", n)
	}
	return nil
}
