package main

// c08: constants and straight-line integer code of the HTTP/2 send-side flow control that
// are not part of flow.go (properties C08, C09):
//
//   - initialMaxFrameSize, initialWindowSize, minMaxFrameSize, maxFrameSize;
//   - Setting.Valid (range checks of SETTINGS values), translated with error results
//     rendered as integers: nil -> 0, ConnectionError(c) -> the numeric error code c;
//   - the `allowed` computation of FrameWriteRequest.Consume and the `take` computation of
//     clientStream.awaitFlowControl, lifted out of their functions by shape-checked AST
//     surgery into the synthetic pure functions
//         consumeAllowed(available, n, maxFrameSize int32) int32
//         awaitTake(a int32, maxBytes int, maxFrameSize uint32) int32
//     (selectors and calls on pointers are replaced by parameters; the statements, their order,
//     the comparisons and their operands come from the Go source);
//   - the window delta of serverConn.processSettingInitialWindowSize and of
//     clientConnReadLoop.processSettingsNoWrite (`int32(val) - old`).

import (
	"fmt"
	"go/ast"
	"go/token"
	"path/filepath"
	"strings"
)

func init() {
	register("c08", func(repo string, args []string) (string, error) {
		p, err := LoadPkg(filepath.Join(repo, "http2"), false)
		if err != nil {
			return "", err
		}
		var b strings.Builder
		b.WriteString(Header("HTTP/2 send-side flow-control constants and arithmetic translated from Go.",
			"http2/http2.go", "http2/frame.go", "http2/writesched.go", "http2/transport.go", "http2/server.go"))
		b.WriteString("namespace NetVerif.Gen.C08\n\n")
		for _, c := range []string{"initialMaxFrameSize", "initialWindowSize", "minMaxFrameSize", "maxFrameSize"} {
			v, err := p.ConstInt(c)
			if err != nil {
				return "", err
			}
			b.WriteString("def " + c + " : Int := " + v + "\n")
		}
		b.WriteString("\n")

		// Setting.Valid
		fd, err := p.Func("Setting.Valid")
		if err != nil {
			return "", err
		}
		if err := c08RewriteErrors(p, fd); err != nil {
			return "", fmt.Errorf("Setting.Valid: %w", err)
		}
		s, err := TranslateFunc(p, "Setting.Valid", TransOpts{LeanName: "settingValid", Num: "Int", Fields: []string{"ID", "Val"}})
		if err != nil {
			return "", err
		}
		b.WriteString(s + "\n")
		for _, c := range []string{"SettingInitialWindowSize", "SettingMaxFrameSize"} {
			v, err := p.ConstInt(c)
			if err != nil {
				return "", err
			}
			b.WriteString("def " + lowerFirst(c) + " : Int := " + v + "\n")
		}
		for _, c := range []string{"ErrCodeProtocol", "ErrCodeFlowControl"} {
			v, err := p.ConstInt(c)
			if err != nil {
				return "", err
			}
			b.WriteString("def " + lowerFirst(c) + " : Int := " + v + "\n")
		}
		b.WriteString("\n")

		// FrameWriteRequest.Consume: the `allowed` computation
		if err := c08LiftConsume(p); err != nil {
			return "", fmt.Errorf("FrameWriteRequest.Consume: %w", err)
		}
		s, err = TranslateFunc(p, "verifConsumeAllowed", TransOpts{LeanName: "consumeAllowed", Num: "Int"})
		if err != nil {
			return "", err
		}
		b.WriteString(s + "\n")

		// clientStream.awaitFlowControl: the `take` computation
		if err := c08LiftAwait(p); err != nil {
			return "", fmt.Errorf("clientStream.awaitFlowControl: %w", err)
		}
		s, err = TranslateFunc(p, "verifAwaitTake", TransOpts{LeanName: "awaitTake", Num: "Int"})
		if err != nil {
			return "", err
		}
		b.WriteString(s + "\n")
		b.WriteString("end NetVerif.Gen.C08\n\n")

		// flow.go (outflow.available/take/add, ...): the translation of the `flow` extractor (c10_flow.go),
		// emitted a second time under NetVerif.Gen.C08.Flow so that the C08/C09 proofs do not depend on
		// Gen/Flow.lean, which the checks of C10/C11 rewrite.
		fl, err := registry["flow"](repo, nil)
		if err != nil {
			return "", fmt.Errorf("flow: %w", err)
		}
		if strings.Count(fl, "NetVerif.Gen.Flow") != 2 {
			return "", fmt.Errorf("flow: unexpected namespace structure")
		}
		if i := strings.Index(fl, "namespace NetVerif.Gen.Flow"); i >= 0 {
			fl = fl[i:]
		}
		b.WriteString(strings.ReplaceAll(fl, "NetVerif.Gen.Flow", "NetVerif.Gen.C08.Flow"))
		return b.String(), nil
	})
}

// c08RewriteErrors turns `return nil` into `return 0` and `return ConnectionError(X)` into
// `return X` and the result type into int.
func c08RewriteErrors(p *Pkg, fd *ast.FuncDecl) error {
	if fd.Type.Results == nil || len(fd.Type.Results.List) != 1 {
		return fmt.Errorf("expected one result")
	}
	fd.Type.Results.List[0].Type = ast.NewIdent("int")
	var bad error
	ast.Inspect(fd.Body, func(n ast.Node) bool {
		r, ok := n.(*ast.ReturnStmt)
		if !ok {
			return true
		}
		if len(r.Results) != 1 {
			bad = fmt.Errorf("return with %d results", len(r.Results))
			return false
		}
		switch x := r.Results[0].(type) {
		case *ast.Ident:
			if x.Name != "nil" {
				bad = fmt.Errorf("unexpected return value %s", x.Name)
				return false
			}
			r.Results[0] = &ast.BasicLit{Kind: token.INT, Value: "0"}
		case *ast.CallExpr:
			id, ok := x.Fun.(*ast.Ident)
			if !ok || id.Name != "ConnectionError" || len(x.Args) != 1 {
				bad = fmt.Errorf("unexpected return expression")
				return false
			}
			r.Results[0] = x.Args[0]
		default:
			bad = fmt.Errorf("unexpected return expression %T", x)
			return false
		}
		return true
	})
	return bad
}

func c08Param(name, typ string) *ast.Field {
	return &ast.Field{Names: []*ast.Ident{ast.NewIdent(name)}, Type: ast.NewIdent(typ)}
}

func c08AddFunc(p *Pkg, file string, name string, params []*ast.Field, result string, body []ast.Stmt) error {
	f, ok := p.Files[file]
	if !ok {
		return fmt.Errorf("file %s not loaded", file)
	}
	f.Decls = append(f.Decls, &ast.FuncDecl{
		Name: ast.NewIdent(name),
		Type: &ast.FuncType{Params: &ast.FieldList{List: params},
			Results: &ast.FieldList{List: []*ast.Field{{Type: ast.NewIdent(result)}}}},
		Body: &ast.BlockStmt{List: body},
	})
	return nil
}

// c08Subst replaces whole selector / call expressions (matched by their printed form) by identifiers.
func c08Subst(stmts []ast.Stmt, repl map[string]string) (err error) {
	var rw func(e ast.Expr) ast.Expr
	rw = func(e ast.Expr) ast.Expr {
		if e == nil {
			return nil
		}
		if r, ok := repl[c08Print(e)]; ok {
			return ast.NewIdent(r)
		}
		switch x := e.(type) {
		case *ast.BinaryExpr:
			x.X, x.Y = rw(x.X), rw(x.Y)
		case *ast.ParenExpr:
			x.X = rw(x.X)
		case *ast.CallExpr: // conversions such as int32(x)
			if id, ok := x.Fun.(*ast.Ident); !ok || (id.Name != "int" && id.Name != "int32") {
				panic("unexpected call " + c08Print(e))
			}
			for i := range x.Args {
				x.Args[i] = rw(x.Args[i])
			}
		case *ast.Ident, *ast.BasicLit:
		default:
			panic(fmt.Sprintf("unexpected expression %s (%T)", c08Print(e), e))
		}
		return e
	}
	var st func(list []ast.Stmt)
	st = func(list []ast.Stmt) {
		for _, s := range list {
			switch x := s.(type) {
			case *ast.AssignStmt:
				for i := range x.Rhs {
					x.Rhs[i] = rw(x.Rhs[i])
				}
				for i := range x.Lhs {
					if _, ok := x.Lhs[i].(*ast.Ident); !ok {
						panic("assignment to non-identifier")
					}
				}
			case *ast.IfStmt:
				if x.Init != nil || x.Else != nil {
					panic("if with init/else")
				}
				x.Cond = rw(x.Cond)
				st(x.Body.List)
			default:
				panic(fmt.Sprintf("unexpected statement %T", s))
			}
		}
	}
	return guard(func() { st(stmts) })
}

func c08Print(e ast.Expr) string {
	switch x := e.(type) {
	case *ast.Ident:
		return x.Name
	case *ast.SelectorExpr:
		return c08Print(x.X) + "." + x.Sel.Name
	case *ast.CallExpr:
		var a []string
		for _, y := range x.Args {
			a = append(a, c08Print(y))
		}
		return c08Print(x.Fun) + "(" + strings.Join(a, ",") + ")"
	case *ast.BasicLit:
		return x.Value
	case *ast.BinaryExpr:
		return c08Print(x.X) + x.Op.String() + c08Print(x.Y)
	case *ast.ParenExpr:
		return "(" + c08Print(x.X) + ")"
	}
	return fmt.Sprintf("<%T>", e)
}

// c08LiftConsume builds
//
//	func verifConsumeAllowed(available, n, maxFrameSize int32) int32 { <stmts>; return allowed }
//
// from the statements of Consume starting at `allowed := wr.stream.flow.available()` up to (excluding)
// `if allowed <= 0 {`, which must be followed by the two take sites `wr.stream.flow.take(allowed)` and
// `wr.stream.flow.take(int32(len(wd.p)))`.
func c08LiftConsume(p *Pkg) error {
	// server_wrap.go (build tag go1.27 && !http2legacy) carries a stub with the same name: take the
	// declaration from writesched.go explicitly.
	fd, err := c08FuncIn(p, "writesched.go", "FrameWriteRequest", "Consume")
	if err != nil {
		return err
	}
	if len(fd.Type.Params.List) != 1 || fd.Type.Params.List[0].Names[0].Name != "n" || c08Print(fd.Type.Params.List[0].Type) != "int32" {
		return fmt.Errorf("expected parameter (n int32)")
	}
	start, end := -1, -1
	for i, s := range fd.Body.List {
		if a, ok := s.(*ast.AssignStmt); ok && a.Tok == token.DEFINE && len(a.Lhs) == 1 && c08Print(a.Lhs[0]) == "allowed" {
			if c08Print(a.Rhs[0]) != "wr.stream.flow.available()" {
				return fmt.Errorf("allowed := %s", c08Print(a.Rhs[0]))
			}
			start = i
		}
		if f, ok := s.(*ast.IfStmt); ok && start >= 0 && end < 0 && c08Print(f.Cond) == "allowed<=0" {
			end = i
		}
	}
	if start < 0 || end < 0 || end != start+3 {
		return fmt.Errorf("unexpected shape (allowed at %d, `if allowed <= 0` at %d)", start, end)
	}
	// the take sites
	var takes []string
	ast.Inspect(fd.Body, func(n ast.Node) bool {
		if c, ok := n.(*ast.CallExpr); ok && c08Print(c.Fun) == "wr.stream.flow.take" {
			takes = append(takes, c08Print(c.Args[0]))
		}
		return true
	})
	if len(takes) != 2 || takes[0] != "allowed" || takes[1] != "int32(len(wd.p))" {
		return fmt.Errorf("unexpected take sites %v", takes)
	}
	// `if len(wd.p) > int(allowed) {` guards the split
	split, ok := fd.Body.List[end+1].(*ast.IfStmt)
	if !ok || c08Print(split.Cond) != "len(wd.p)>int(allowed)" {
		return fmt.Errorf("unexpected split condition")
	}
	body := append([]ast.Stmt{}, fd.Body.List[start:end]...)
	if err := c08Subst(body, map[string]string{"wr.stream.flow.available()": "available", "wr.stream.sc.maxFrameSize": "maxFrameSize"}); err != nil {
		return err
	}
	body = append(body, &ast.ReturnStmt{Results: []ast.Expr{ast.NewIdent("allowed")}})
	return c08AddFunc(p, "writesched.go", "verifConsumeAllowed",
		[]*ast.Field{c08Param("available", "int32"), c08Param("n", "int32"), c08Param("maxFrameSize", "int32")}, "int32", body)
}

// c08LiftAwait builds
//
//	func verifAwaitTake(a int32, maxBytes int, maxFrameSize uint32) int32 { <stmts>; return take }
//
// from the body of `if a := cs.flow.available(); a > 0 { ...; cs.flow.take(take); return take, nil }`.
func c08LiftAwait(p *Pkg) error {
	fd, err := c08FuncIn(p, "transport.go", "clientStream", "awaitFlowControl")
	if err != nil {
		return err
	}
	var found *ast.IfStmt
	n := 0
	ast.Inspect(fd.Body, func(nd ast.Node) bool {
		if f, ok := nd.(*ast.IfStmt); ok && f.Init != nil {
			if a, ok := f.Init.(*ast.AssignStmt); ok && len(a.Rhs) == 1 && c08Print(a.Rhs[0]) == "cs.flow.available()" {
				found = f
				n++
			}
		}
		return true
	})
	if n != 1 {
		return fmt.Errorf("expected exactly one `if a := cs.flow.available(); ...`, found %d", n)
	}
	if c08Print(found.Init.(*ast.AssignStmt).Lhs[0]) != "a" || c08Print(found.Cond) != "a>0" || found.Else != nil {
		return fmt.Errorf("unexpected guard %s", c08Print(found.Cond))
	}
	l := found.Body.List
	if len(l) < 3 {
		return fmt.Errorf("unexpected body")
	}
	es, ok := l[len(l)-2].(*ast.ExprStmt)
	if !ok || c08Print(es.X) != "cs.flow.take(take)" {
		return fmt.Errorf("expected cs.flow.take(take)")
	}
	rs, ok := l[len(l)-1].(*ast.ReturnStmt)
	if !ok || len(rs.Results) != 2 || c08Print(rs.Results[0]) != "take" || c08Print(rs.Results[1]) != "nil" {
		return fmt.Errorf("expected return take, nil")
	}
	body := append([]ast.Stmt{}, l[:len(l)-2]...)
	if err := c08Subst(body, map[string]string{"cc.maxFrameSize": "maxFrameSize"}); err != nil {
		return err
	}
	body = append(body, &ast.ReturnStmt{Results: []ast.Expr{ast.NewIdent("take")}})
	return c08AddFunc(p, "transport.go", "verifAwaitTake",
		[]*ast.Field{c08Param("a", "int32"), c08Param("maxBytes", "int"), c08Param("maxFrameSize", "uint32")}, "int32", body)
}

// c08FuncIn finds method recv.name declared in the given file.
func c08FuncIn(p *Pkg, file, recv, name string) (*ast.FuncDecl, error) {
	f, ok := p.Files[file]
	if !ok {
		return nil, fmt.Errorf("file %s not loaded", file)
	}
	for _, d := range f.Decls {
		fd, ok := d.(*ast.FuncDecl)
		if ok && fd.Name.Name == name && fd.Recv != nil && len(fd.Recv.List) == 1 && baseTypeName(fd.Recv.List[0].Type) == recv && fd.Body != nil {
			return fd, nil
		}
	}
	return nil, fmt.Errorf("%s.%s not found in %s", recv, name, file)
}
