package main

// c14: what the C14 model mirrors, regenerated from the Go source (Gen/C14.lean):
//   * the source text (go/printer, comments stripped) of the two header-block fragmentation
//     loops: splitHeaderBlock (write.go) and ClientConn.writeHeaders (transport.go), and of
//     writeResHeaders.writeHeaderBlock, and of clientStream.encodeAndWriteHeaders (where END_STREAM
//     on the request HEADERS is decided) — Proofs/C14Tie.lean compares them with the text the model
//     was written against, so any edit of these functions breaks a proof;
//   * the local constant maxFrameSize of splitHeaderBlock, handlerChunkWriteSize, defaultUserAgent,
//     TrailerPrefix;
//   * the header names EncodeHeaders treats specially (the asciiEqualFold chain, in order), the
//     forbidden trailer names of commaSeparatedTrailers and NewServerRequest, the methods of
//     shouldSendReqContentLength, the status codes of bodyAllowedForStatus.

import (
	"bytes"
	"fmt"
	"go/ast"
	"go/printer"
	"go/token"
	"path/filepath"
	"strconv"
	"strings"
)

func c14FuncSrc(p *Pkg, name string) (string, error) {
	fd, err := p.Func(name)
	if err != nil {
		return "", err
	}
	// print without comments: a fresh FileSet-less config prints the node only
	var buf bytes.Buffer
	cfg := printer.Config{Mode: printer.RawFormat, Tabwidth: 1}
	saveDoc := fd.Doc
	fd.Doc = nil
	err = cfg.Fprint(&buf, p.Fset, &printer.CommentedNode{Node: fd, Comments: []*ast.CommentGroup{}})
	fd.Doc = saveDoc
	if err != nil {
		return "", err
	}
	// drop line comments (outside string literals), normalise whitespace
	var lines []string
	for _, l := range strings.Split(buf.String(), "\n") {
		inStr := byte(0)
		for i := 0; i < len(l); i++ {
			c := l[i]
			if inStr != 0 {
				if c == '\\' && inStr != '`' {
					i++
				} else if c == inStr {
					inStr = 0
				}
				continue
			}
			if c == '"' || c == '`' || c == '\'' {
				inStr = c
			} else if c == '/' && i+1 < len(l) && l[i+1] == '/' {
				l = l[:i]
				break
			}
		}
		lines = append(lines, l)
	}
	return strings.Join(strings.Fields(strings.Join(lines, "\n")), " "), nil
}

func c14LeanString(s string) string { return strconv.Quote(s) }

func c14StringList(xs []string) string {
	q := make([]string, len(xs))
	for i, x := range xs {
		q[i] = c14LeanString(x)
	}
	return "[" + strings.Join(q, ", ") + "]"
}

// string literal second arguments of calls to fn inside body, in source order
func c14CallLits(body ast.Node, fn string) []string {
	var out []string
	ast.Inspect(body, func(n ast.Node) bool {
		ce, ok := n.(*ast.CallExpr)
		if !ok {
			return true
		}
		id, ok := ce.Fun.(*ast.Ident)
		if !ok || id.Name != fn || len(ce.Args) != 2 {
			return true
		}
		if bl, ok := ce.Args[1].(*ast.BasicLit); ok && bl.Kind == token.STRING {
			s, _ := strconv.Unquote(bl.Value)
			out = append(out, s)
		}
		return true
	})
	return out
}

// string literals of the case clauses of the first switch on `tag` inside body
func c14CaseLits(body ast.Node, tag string) ([]string, error) {
	var out []string
	found := false
	ast.Inspect(body, func(n ast.Node) bool {
		sw, ok := n.(*ast.SwitchStmt)
		if !ok || found {
			return true
		}
		id, ok := sw.Tag.(*ast.Ident)
		if !ok || id.Name != tag {
			return true
		}
		found = true
		for _, c := range sw.Body.List {
			cc := c.(*ast.CaseClause)
			for _, e := range cc.List {
				if bl, ok := e.(*ast.BasicLit); ok && bl.Kind == token.STRING {
					s, _ := strconv.Unquote(bl.Value)
					out = append(out, s)
				}
			}
		}
		return false
	})
	if !found {
		return nil, fmt.Errorf("no switch on %s", tag)
	}
	return out, nil
}

// operator of the first binary comparison `x <op> …` (x an identifier) inside body
func c14CmpOp(body ast.Node, x string) (string, error) {
	op := ""
	ast.Inspect(body, func(n ast.Node) bool {
		be, ok := n.(*ast.BinaryExpr)
		if !ok || op != "" {
			return true
		}
		if id, ok := be.X.(*ast.Ident); ok && id.Name == x {
			switch be.Op {
			case token.GTR, token.GEQ, token.LSS, token.LEQ, token.EQL, token.NEQ:
				op = be.Op.String() + " " + exprString(be.Y)
			}
		}
		return true
	})
	if op == "" {
		return "", fmt.Errorf("no comparison on %s", x)
	}
	return op, nil
}

// local constant of a function
func c14LocalConst(p *Pkg, fd *ast.FuncDecl, name string) (string, error) {
	var res string
	var rerr error = fmt.Errorf("local const %s not found in %s", name, fd.Name.Name)
	ast.Inspect(fd.Body, func(n ast.Node) bool {
		gd, ok := n.(*ast.GenDecl)
		if !ok || gd.Tok != token.CONST {
			return true
		}
		for _, s := range gd.Specs {
			vs := s.(*ast.ValueSpec)
			for j, nm := range vs.Names {
				if nm.Name == name && j < len(vs.Values) {
					res, rerr = p.EvalInt(vs.Values[j])
				}
			}
		}
		return true
	})
	return res, rerr
}

func init() {
	register("c14", func(repo string, args []string) (string, error) {
		h2, err := LoadPkg(filepath.Join(repo, "http2"), false)
		if err != nil {
			return "", err
		}
		hc, err := LoadPkg(filepath.Join(repo, "internal", "httpcommon"), false)
		if err != nil {
			return "", err
		}
		var b strings.Builder
		b.WriteString(Header("C14: header-block fragmentation loops (source text), constants and special header names.",
			"http2/write.go, http2/transport.go, http2/server.go, internal/httpcommon/request.go"))
		b.WriteString("namespace NetVerif.Gen.C14\n\n")

		for _, f := range []struct{ lean, fn string }{
			{"splitHeaderBlockSrc", "splitHeaderBlock"},
			{"clientWriteHeadersSrc", "ClientConn.writeHeaders"},
			{"writeHeaderBlockSrc", "writeResHeaders.writeHeaderBlock"},
			{"encodeAndWriteHeadersSrc", "clientStream.encodeAndWriteHeaders"},
		} {
			src, err := c14FuncSrc(h2, f.fn)
			if err != nil {
				return "", err
			}
			b.WriteString("def " + f.lean + " : String := " + c14LeanString(src) + "\n\n")
		}

		shb, err := h2.Func("splitHeaderBlock")
		if err != nil {
			return "", err
		}
		v, err := c14LocalConst(h2, shb, "maxFrameSize")
		if err != nil {
			return "", err
		}
		b.WriteString("def splitHeaderBlockMaxFrameSize : Nat := " + v + "\n")
		for _, c := range []string{"handlerChunkWriteSize", "minMaxFrameSize", "frameHeaderLen"} {
			v, err := h2.ConstInt(c)
			if err != nil {
				return "", err
			}
			b.WriteString("def " + c + " : Nat := " + v + "\n")
		}
		for _, c := range []string{"defaultUserAgent", "TrailerPrefix"} {
			cv, err := h2.Const(c)
			if err != nil {
				return "", err
			}
			s, err := strconv.Unquote(cv.ExactString())
			if err != nil {
				return "", err
			}
			b.WriteString("def " + lowerFirst(c) + " : String := " + c14LeanString(s) + "\n")
		}

		eh, err := hc.Func("EncodeHeaders")
		if err != nil {
			return "", err
		}
		fold := c14CallLits(eh.Body, "asciiEqualFold")
		if len(fold) == 0 {
			return "", fmt.Errorf("no asciiEqualFold chain in EncodeHeaders")
		}
		b.WriteString("\n/-- second arguments of the asciiEqualFold(k, …) chain of enumerateHeaders, in order. -/\n")
		b.WriteString("def encodeHeadersFoldNames : List String := " + c14StringList(fold) + "\n")

		cst, err := hc.Func("commaSeparatedTrailers")
		if err != nil {
			return "", err
		}
		l1, err := c14CaseLits(cst.Body, "k")
		if err != nil {
			return "", err
		}
		b.WriteString("def clientForbiddenTrailers : List String := " + c14StringList(l1) + "\n")
		nsr, err := hc.Func("NewServerRequest")
		if err != nil {
			return "", err
		}
		l2, err := c14CaseLits(nsr.Body, "key")
		if err != nil {
			return "", err
		}
		b.WriteString("def serverForbiddenTrailers : List String := " + c14StringList(l2) + "\n")
		scl, err := hc.Func("shouldSendReqContentLength")
		if err != nil {
			return "", err
		}
		l3, err := c14CaseLits(scl.Body, "method")
		if err != nil {
			return "", err
		}
		b.WriteString("def contentLengthMethods : List String := " + c14StringList(l3) + "\n")

		// SETTINGS_MAX_HEADER_LIST_SIZE: the two comparisons and the server's advertised value
		rmf, err := h2.Func("Framer.readMetaFrame")
		if err != nil {
			return "", err
		}
		op, err := c14CmpOp(rmf.Body, "size")
		if err != nil {
			return "", err
		}
		b.WriteString("/-- `size <op> remainSize` in the emit callback of readMetaFrame (truncation). -/\n")
		b.WriteString("def readMetaFrameSizeCmp : String := " + c14LeanString(op) + "\n")
		op, err = c14CmpOp(eh.Body, "hlSize")
		if err != nil {
			return "", err
		}
		b.WriteString("def encodeHeadersSizeCmp : String := " + c14LeanString(op) + "\n")
		adj, err := h2.Func("adjustHTTP1MaxHeaderSize")
		if err != nil {
			return "", err
		}
		for _, c := range []string{"perFieldOverhead", "typicalHeaders"} {
			v, err := c14LocalConst(h2, adj, c)
			if err != nil {
				return "", err
			}
			b.WriteString("def " + c + " : Nat := " + v + "\n")
		}
		src0, err := c14FuncSrc(h2, "adjustHTTP1MaxHeaderSize")
		if err != nil {
			return "", err
		}
		b.WriteString("def adjustHTTP1MaxHeaderSizeSrc : String := " + c14LeanString(src0) + "\n")

		// bodyAllowedForStatus: printed source (small pure function)
		src, err := c14FuncSrc(h2, "bodyAllowedForStatus")
		if err != nil {
			return "", err
		}
		b.WriteString("def bodyAllowedForStatusSrc : String := " + c14LeanString(src) + "\n")

		b.WriteString("\nend NetVerif.Gen.C14\n")
		return b.String(), nil
	})
}
