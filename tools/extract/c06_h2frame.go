package main

// c06: http2/frame.go, http2.go, errors.go — frame type / flag / setting-ID /
// error-code constants, the size constants, the `frameParsers` dispatch table
// (frame type -> parser function name) and the two stream-ID predicates
// (through the restricted-fragment translator).

import (
	"fmt"
	"go/ast"
	"path/filepath"
	"sort"
	"strconv"
	"strings"
)

// c06ConstsOfType lists, in source order, the package-level constants that
// are declared with the explicit type `typ` (e.g. `FrameData FrameType = 0x0`).
func c06ConstsOfType(p *Pkg, typ string) []string {
	type ent struct {
		name string
		pos  int
	}
	var out []ent
	for _, f := range p.Files {
		for _, d := range f.Decls {
			gd, ok := d.(*ast.GenDecl)
			if !ok || gd.Tok.String() != "const" {
				continue
			}
			for _, s := range gd.Specs {
				vs := s.(*ast.ValueSpec)
				id, ok := vs.Type.(*ast.Ident)
				if !ok || id.Name != typ {
					continue
				}
				for _, n := range vs.Names {
					out = append(out, ent{n.Name, int(n.Pos())})
				}
			}
		}
	}
	sort.Slice(out, func(i, j int) bool { return out[i].pos < out[j].pos })
	names := make([]string, len(out))
	for i, e := range out {
		names[i] = e.name
	}
	return names
}

// c06WrittenFields lists (sorted, unique) the fields `recv.f` a method assigns: plain and compound
// assignments, ++/--, also inside nested blocks and function literals; `recv.f.g = …`, `recv.f[i] = …`
// count as writes of f. Taking the address of a receiver field is rejected (could alias a write).
func c06WrittenFields(fd *ast.FuncDecl) ([]string, error) {
	if fd.Recv == nil || len(fd.Recv.List) != 1 || len(fd.Recv.List[0].Names) != 1 {
		return nil, fmt.Errorf("no named receiver")
	}
	recv := fd.Recv.List[0].Names[0].Name
	set := map[string]bool{}
	var bad error
	var root func(e ast.Expr) string
	root = func(e ast.Expr) string {
		switch x := e.(type) {
		case *ast.SelectorExpr:
			if id, ok := x.X.(*ast.Ident); ok && id.Name == recv {
				return x.Sel.Name
			}
			return root(x.X)
		case *ast.IndexExpr:
			return root(x.X)
		case *ast.StarExpr:
			return root(x.X)
		case *ast.ParenExpr:
			return root(x.X)
		}
		return ""
	}
	ast.Inspect(fd.Body, func(n ast.Node) bool {
		switch x := n.(type) {
		case *ast.AssignStmt:
			for _, l := range x.Lhs {
				if f := root(l); f != "" {
					set[f] = true
				}
			}
		case *ast.IncDecStmt:
			if f := root(x.X); f != "" {
				set[f] = true
			}
		case *ast.UnaryExpr:
			if x.Op.String() == "&" {
				if f := root(x.X); f != "" {
					bad = fmt.Errorf("address of receiver field %s taken", f)
				}
			}
		}
		return true
	})
	if bad != nil {
		return nil, bad
	}
	var out []string
	for f := range set {
		out = append(out, f)
	}
	sort.Strings(out)
	return out, nil
}

func init() {
	register("c06", func(repo string, args []string) (string, error) {
		p, err := LoadPkg(filepath.Join(repo, "http2"), false)
		if err != nil {
			return "", err
		}
		var b strings.Builder
		b.WriteString(Header("HTTP/2 framing constants, parser dispatch table and stream-ID predicates.",
			"http2/frame.go", "http2/http2.go", "http2/errors.go"))
		b.WriteString("namespace NetVerif.Gen.C06\n\n")
		for _, typ := range []string{"FrameType", "Flags", "SettingID", "ErrCode"} {
			names := c06ConstsOfType(p, typ)
			if len(names) == 0 {
				return "", fmt.Errorf("no constants of type %s found", typ)
			}
			var pairs []string
			for _, n := range names {
				v, err := p.ConstInt(n)
				if err != nil {
					return "", err
				}
				b.WriteString("def " + lowerFirst(n) + " : Nat := " + v + "\n")
				pairs = append(pairs, "(\""+n+"\", "+v+")")
			}
			b.WriteString("/-- every constant declared with Go type `" + typ + "`, in source order -/\n")
			b.WriteString("def all" + typ + " : List (String × Nat) :=\n  [" + strings.Join(pairs, ", ") + "]\n\n")
		}
		for _, c := range []string{"frameHeaderLen", "minMaxFrameSize", "maxFrameSize"} {
			v, err := p.ConstInt(c)
			if err != nil {
				return "", err
			}
			b.WriteString("def " + c + " : Nat := " + v + "\n")
		}
		b.WriteString("\n")
		// frameParsers = [...]frameParser{ FrameData: parseDataFrame, ... }
		e, err := p.Var("frameParsers")
		if err != nil {
			return "", err
		}
		cl, ok := e.(*ast.CompositeLit)
		if !ok {
			return "", fmt.Errorf("frameParsers: not a composite literal")
		}
		var rows []string
		seen := map[int]bool{}
		for _, el := range cl.Elts {
			kv, ok := el.(*ast.KeyValueExpr)
			if !ok {
				return "", fmt.Errorf("frameParsers: positional element")
			}
			ks, err := p.EvalInt(kv.Key)
			if err != nil {
				return "", fmt.Errorf("frameParsers key: %w", err)
			}
			k, err := strconv.Atoi(ks)
			if err != nil || k < 0 || k > 255 || seen[k] {
				return "", fmt.Errorf("frameParsers: bad or duplicate key %s", ks)
			}
			seen[k] = true
			id, ok := kv.Value.(*ast.Ident)
			if !ok {
				return "", fmt.Errorf("frameParsers[%d]: value is not a function name", k)
			}
			rows = append(rows, fmt.Sprintf("(%d, \"%s\")", k, id.Name))
		}
		b.WriteString("/-- `var frameParsers = [...]frameParser{…}`: frame type -> parser; absent types use parseUnknownFrame -/\n")
		b.WriteString("def frameParsers : List (Nat × String) :=\n  [" + strings.Join(rows, ", ") + "]\n\n")
		for _, fn := range []string{"validStreamIDOrZero", "validStreamID"} {
			s, err := TranslateFunc(p, fn, TransOpts{LeanName: fn, Num: "Nat", BoolResult: true})
			if err != nil {
				return "", err
			}
			b.WriteString(s + "\n")
		}
		s1, err := TranslateFunc(p, "Framer.SetMaxReadFrameSize", TransOpts{LeanName: "setMaxReadFrameSize", Num: "Nat",
			Fields: []string{"maxReadSize"}, ReturnFields: true})
		if err != nil {
			return "", err
		}
		b.WriteString(s1 + "\n")
		// which Framer fields do the read-path methods write? (a new field that accumulates over the
		// Framer's lifetime must show up here and break the tie with the model's state components)
		b.WriteString("/-- for each read-path method of Framer: the receiver fields it assigns (sorted) -/\n")
		b.WriteString("def readerWrittenFields : List (String × List String) :=\n  [")
		for i, fn := range []string{"ReadFrameHeader", "ReadFrameForHeader", "ReadFrame", "checkFrameOrder", "connError", "readMetaFrame"} {
			fd, err := p.Func("Framer." + fn)
			if err != nil {
				return "", err
			}
			fields, err := c06WrittenFields(fd)
			if err != nil {
				return "", fmt.Errorf("%s: %w", fn, err)
			}
			var q []string
			for _, f := range fields {
				q = append(q, "\""+f+"\"")
			}
			if i > 0 {
				b.WriteString(",\n   ")
			}
			b.WriteString("(\"" + fn + "\", [" + strings.Join(q, ", ") + "])")
		}
		b.WriteString("]\n\n")
		b.WriteString("end NetVerif.Gen.C06\n")
		return b.String(), nil
	})
}
