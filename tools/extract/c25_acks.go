package main

// c25: quic/acks.go — the local constant maxAckRanges of ackState.receive and
// ackState.shouldProcess as a translated Lean definition. The two rangeset
// queries shouldProcess makes (`acks.seen.min()`, `acks.seen.contains(num)`)
// become section variables `seenMin`, `seenContains` of the generated file.

import (
	"bytes"
	"fmt"
	"go/ast"
	"go/printer"
	"go/token"
	"path/filepath"
	"strings"
)

func c25Print(p *Pkg, n ast.Node) string {
	if n == nil {
		return ""
	}
	var buf bytes.Buffer
	printer.Fprint(&buf, p.Fset, n)
	return buf.String()
}

func init() {
	register("c25", func(repo string, args []string) (string, error) {
		p, err := LoadPkg(filepath.Join(repo, "quic"), false)
		if err != nil {
			return "", err
		}
		var b strings.Builder
		b.WriteString(Header("ackState constants and shouldProcess translated from Go.", "quic/acks.go"))
		b.WriteString("namespace NetVerif.Gen.C25\n\n")

		// const maxAckRanges inside receive, and its use `numRanges() - maxAckRanges; overflow > 0` + removeranges(0, overflow)
		fd, err := p.Func("ackState.receive")
		if err != nil {
			return "", err
		}
		val := ""
		prune := false
		ast.Inspect(fd.Body, func(n ast.Node) bool {
			switch x := n.(type) {
			case *ast.DeclStmt:
				if gd, ok := x.Decl.(*ast.GenDecl); ok && gd.Tok == token.CONST {
					for _, sp := range gd.Specs {
						vs := sp.(*ast.ValueSpec)
						for i, nm := range vs.Names {
							if nm.Name == "maxAckRanges" && i < len(vs.Values) {
								if v, err := p.EvalInt(vs.Values[i]); err == nil {
									val = v
								}
							}
						}
					}
				}
			case *ast.IfStmt:
				if c25Print(p, x.Init) == "overflow := acks.seen.numRanges() - maxAckRanges" &&
					c25Print(p, x.Cond) == "overflow > 0" && len(x.Body.List) == 1 &&
					c25Print(p, x.Body.List[0]) == "acks.seen.removeranges(0, overflow)" {
					prune = true
				}
			}
			return true
		})
		if val == "" {
			return "", fmt.Errorf("ackState.receive: local const maxAckRanges not found")
		}
		if !prune {
			return "", fmt.Errorf("ackState.receive: pruning statement has an unexpected shape")
		}
		b.WriteString("def maxAckRanges : Nat := " + val + "\n\n")

		// shouldProcess: turn `if <call> {` into `if <call> == true {` for the translator
		sp, err := p.Func("ackState.shouldProcess")
		if err != nil {
			return "", err
		}
		for _, st := range sp.Body.List {
			if is, ok := st.(*ast.IfStmt); ok {
				if call, ok := is.Cond.(*ast.CallExpr); ok {
					is.Cond = &ast.BinaryExpr{X: call, Op: token.EQL, Y: ast.NewIdent("true")}
				}
			}
		}
		s, err := TranslateFunc(p, "ackState.shouldProcess", TransOpts{LeanName: "shouldProcess", Num: "Int",
			Calls: map[string]string{"acks.seen.min": "seenMin", "acks.seen.contains": "seenContains"}})
		if err != nil {
			return "", err
		}
		b.WriteString("section\nvariable (seenMin : Int) (seenContains : Int → Bool)\n\n" + s + "\nend\n\n")
		b.WriteString("end NetVerif.Gen.C25\n")
		return b.String(), nil
	})
}
