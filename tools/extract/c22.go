package main

// c22: thresholds of SizeVarint / AppendVarint and the constants of
// internal/quic/quicwire/wire.go, as translated Lean definitions.

import (
	"path/filepath"
	"strings"
)

func init() {
	register("c22", func(repo string, args []string) (string, error) {
		p, err := LoadPkg(filepath.Join(repo, "internal/quic/quicwire"), false)
		if err != nil {
			return "", err
		}
		var b strings.Builder
		b.WriteString(Header("QUIC varint functions translated from Go.", "internal/quic/quicwire/wire.go"))
		b.WriteString("namespace NetVerif.Gen.C22\n\n")
		for _, c := range []string{"MaxVarintSize", "MaxVarint"} {
			v, err := p.ConstInt(c)
			if err != nil {
				return "", err
			}
			b.WriteString("def " + lowerFirst(c) + " : Nat := " + v + "\n")
		}
		b.WriteString("\n")
		for _, fn := range []string{"SizeVarint", "AppendVarint"} {
			s, err := TranslateFunc(p, fn, TransOpts{LeanName: lowerFirst(fn), Num: "Nat"})
			if err != nil {
				return "", err
			}
			b.WriteString(s + "\n")
		}
		b.WriteString("end NetVerif.Gen.C22\n")
		return b.String(), nil
	})
}

