package main

// c41: T-facts about the link fields of html.Node.
//   * every place outside node.go (non-test files of package html) where one of
//     .Parent/.FirstChild/.LastChild/.PrevSibling/.NextSibling is written:
//     assignment LHS, ++/--, address-of, key in a Node composite literal,
//     range-clause target;
//   * the functions of node.go that write them;
//   * the call sites of InsertBefore outside node.go;
//   * the (whitespace-normalised) source text of the three mutators.

import (
	"bytes"
	"fmt"
	"go/ast"
	"go/printer"
	"go/token"
	"path/filepath"
	"sort"
	"strconv"
	"strings"
)

var c41LinkFields = map[string]bool{"Parent": true, "FirstChild": true, "LastChild": true, "PrevSibling": true, "NextSibling": true}

func c41norm(p *Pkg, n ast.Node) string {
	var b bytes.Buffer
	printer.Fprint(&b, p.Fset, n)
	return strings.Join(strings.Fields(b.String()), " ")
}

func c41isLinkSel(e ast.Expr) bool {
	for {
		switch x := e.(type) {
		case *ast.ParenExpr:
			e = x.X
			continue
		case *ast.SelectorExpr:
			return c41LinkFields[x.Sel.Name]
		}
		return false
	}
}

// c41writes lists the positions in fn (or a whole file) where a link field is written.
func c41writes(p *Pkg, root ast.Node) []token.Pos {
	var out []token.Pos
	ast.Inspect(root, func(n ast.Node) bool {
		switch x := n.(type) {
		case *ast.AssignStmt:
			for _, l := range x.Lhs {
				if c41isLinkSel(l) {
					out = append(out, l.Pos())
				}
			}
		case *ast.IncDecStmt:
			if c41isLinkSel(x.X) {
				out = append(out, x.Pos())
			}
		case *ast.UnaryExpr:
			if x.Op == token.AND && c41isLinkSel(x.X) {
				out = append(out, x.Pos())
			}
		case *ast.RangeStmt:
			if (x.Key != nil && c41isLinkSel(x.Key)) || (x.Value != nil && c41isLinkSel(x.Value)) {
				out = append(out, x.Pos())
			}
		case *ast.CompositeLit:
			for _, el := range x.Elts {
				if kv, ok := el.(*ast.KeyValueExpr); ok {
					if id, ok := kv.Key.(*ast.Ident); ok && c41LinkFields[id.Name] {
						out = append(out, kv.Pos())
					}
				}
			}
			// positional Node{...} literals would also set the links
			if c41norm(p, x.Type) == "Node" && len(x.Elts) > 0 {
				if _, ok := x.Elts[0].(*ast.KeyValueExpr); !ok {
					out = append(out, x.Pos())
				}
			}
		}
		return true
	})
	return out
}

// c41classify says what a mutator call passes as the child: a node created on the
// spot ("fresh"), a local variable only ever assigned fresh nodes ("fresh-var"),
// a parameter of the enclosing function ("param"), or anything else ("other").
func c41classify(p *Pkg, fd *ast.FuncDecl, arg ast.Expr) string {
	isFresh := func(e ast.Expr) bool {
		switch x := e.(type) {
		case *ast.UnaryExpr:
			if cl, ok := x.X.(*ast.CompositeLit); ok && x.Op == token.AND && c41norm(p, cl.Type) == "Node" {
				return true
			}
		case *ast.CallExpr:
			if sel, ok := x.Fun.(*ast.SelectorExpr); ok && sel.Sel.Name == "clone" && len(x.Args) == 0 {
				return true
			}
		}
		return false
	}
	if isFresh(arg) {
		return "fresh"
	}
	id, ok := arg.(*ast.Ident)
	if !ok {
		return "other"
	}
	for _, fl := range fd.Type.Params.List {
		for _, n := range fl.Names {
			if n.Name == id.Name {
				return "param"
			}
		}
	}
	assigned, allFresh := 0, true
	ast.Inspect(fd.Body, func(n ast.Node) bool {
		as, ok := n.(*ast.AssignStmt)
		if !ok {
			return true
		}
		for i, l := range as.Lhs {
			if li, ok := l.(*ast.Ident); ok && li.Name == id.Name {
				assigned++
				if len(as.Rhs) != len(as.Lhs) || !isFresh(as.Rhs[i]) {
					allFresh = false
				}
			}
		}
		return true
	})
	if assigned > 0 && allFresh {
		return "fresh-var"
	}
	return "other"
}

func c41leanStrList(xs []string) string {
	q := make([]string, len(xs))
	for i, x := range xs {
		q[i] = strconv.Quote(x)
	}
	return "[" + strings.Join(q, ", ") + "]"
}

func init() {
	register("c41", func(repo string, args []string) (string, error) {
		p, err := LoadPkg(filepath.Join(repo, "html"), false)
		if err != nil {
			return "", err
		}
		if _, ok := p.Files["node.go"]; !ok {
			return "", fmt.Errorf("html/node.go not found")
		}
		var names []string
		for n := range p.Files {
			names = append(names, n)
		}
		sort.Strings(names)
		var outside []string
		var ibCallers []string
		var childSites []string
		for _, name := range names {
			if name == "node.go" {
				continue
			}
			f := p.Files[name]
			for _, pos := range c41writes(p, f) {
				pp := p.Fset.Position(pos)
				outside = append(outside, fmt.Sprintf("(%s, %d)", strconv.Quote(name), pp.Line))
			}
			for _, d := range f.Decls {
				fd, ok := d.(*ast.FuncDecl)
				if !ok || fd.Body == nil {
					continue
				}
				ast.Inspect(fd.Body, func(n ast.Node) bool {
					if c, ok := n.(*ast.CallExpr); ok {
						if sel, ok := c.Fun.(*ast.SelectorExpr); ok && sel.Sel.Name == "InsertBefore" {
							ibCallers = append(ibCallers, name+":"+fd.Name.Name)
						}
						if sel, ok := c.Fun.(*ast.SelectorExpr); ok && len(c.Args) >= 1 &&
							(sel.Sel.Name == "InsertBefore" || sel.Sel.Name == "AppendChild") {
							childSites = append(childSites, name+":"+fd.Name.Name+" "+sel.Sel.Name+" "+c41classify(p, fd, c.Args[0])+":"+c41norm(p, c.Args[0]))
						}
						// callers of the helpers that forward their parameter to a mutator
						if sel, ok := c.Fun.(*ast.SelectorExpr); ok && len(c.Args) == 1 &&
							(sel.Sel.Name == "addChild" || sel.Sel.Name == "fosterParent") {
							childSites = append(childSites, name+":"+fd.Name.Name+" "+sel.Sel.Name+" "+c41classify(p, fd, c.Args[0])+":"+c41norm(p, c.Args[0]))
						}
						if id, ok := c.Fun.(*ast.Ident); ok && id.Name == "reparentChildren" && len(c.Args) == 2 {
							childSites = append(childSites, name+":"+fd.Name.Name+" reparentChildren "+c41classify(p, fd, c.Args[0])+":"+c41norm(p, c.Args[0]))
						}
					}
					// method values (x.InsertBefore passed around) would escape this scan
					if sel, ok := n.(*ast.SelectorExpr); ok && sel.Sel.Name == "InsertBefore" {
						_ = sel
					}
					return true
				})
			}
		}
		// writers inside node.go
		var writers []string
		for _, d := range p.Files["node.go"].Decls {
			switch x := d.(type) {
			case *ast.FuncDecl:
				if x.Body != nil && len(c41writes(p, x.Body)) > 0 {
					writers = append(writers, x.Name.Name)
				}
			case *ast.GenDecl:
				if len(c41writes(p, x)) > 0 {
					writers = append(writers, "<package-level declaration>")
				}
			}
		}
		sort.Strings(writers)
		sort.Strings(ibCallers)
		src := map[string]string{}
		for _, fn := range []string{"InsertBefore", "AppendChild", "RemoveChild"} {
			fd, err := p.Func("Node." + fn)
			if err != nil {
				return "", err
			}
			src[fn] = c41norm(p, fd.Body)
		}
		var b strings.Builder
		b.WriteString(Header("Who writes the link fields of html.Node.", "html/*.go"))
		b.WriteString("namespace NetVerif.Gen.C41\n\n")
		b.WriteString("/-- (file, line) of every write to a link field outside node.go -/\n")
		b.WriteString("def linkWritesOutsideNodeGo : List (String × Nat) := [" + strings.Join(outside, ", ") + "]\n")
		b.WriteString("/-- functions of node.go that write a link field -/\n")
		b.WriteString("def nodeGoLinkWriters : List String := " + c41leanStrList(writers) + "\n")
		b.WriteString("/-- functions outside node.go that call InsertBefore -/\n")
		b.WriteString("def insertBeforeCallers : List String := " + c41leanStrList(ibCallers) + "\n")
		// not sorted: source order within a file is part of the fact
		var short []string
		for _, cs := range childSites {
			if len(cs) > 160 {
				cs = cs[:160]
			}
			short = append(short, cs)
		}
		b.WriteString("/-- every call outside node.go of AppendChild/InsertBefore, and of the helpers addChild/fosterParent/\nreparentChildren that forward a node to them: `file:function callee class:argument` -/\n")
		b.WriteString("def childArgSites : List String := [\n  " + strings.Join(func() []string {
			q := make([]string, len(short))
			for i, x := range short {
				q[i] = strconv.Quote(x)
			}
			return q
		}(), ",\n  ") + "]\n")
		var nonFresh, forwarders []string
		for _, cs := range short {
			f := strings.SplitN(cs, " ", 3)
			if len(f) == 3 && strings.HasPrefix(f[2], "other:") {
				nonFresh = append(nonFresh, cs)
			}
			if len(f) == 3 && strings.HasPrefix(f[2], "param:") {
				forwarders = append(forwarders, cs)
			}
		}
		b.WriteString("/-- the sites whose node argument is neither created on the spot nor a forwarded parameter -/\n")
		b.WriteString("def nonFreshChildSites : List String := " + c41leanStrList(nonFresh) + "\n")
		b.WriteString("/-- the helpers that forward their parameter to a mutator (their callers are listed in childArgSites) -/\n")
		b.WriteString("def paramForwarders : List String := " + c41leanStrList(forwarders) + "\n")
		b.WriteString("def scannedFiles : List String := " + c41leanStrList(names) + "\n")
		b.WriteString("def insertBeforeSrc : String := " + strconv.Quote(src["InsertBefore"]) + "\n")
		b.WriteString("def appendChildSrc : String := " + strconv.Quote(src["AppendChild"]) + "\n")
		b.WriteString("def removeChildSrc : String := " + strconv.Quote(src["RemoveChild"]) + "\n")
		b.WriteString("\nend NetVerif.Gen.C41\n")
		return b.String(), nil
	})
}
