package main

// c15: limits and tables of http2/server.go used by the C15 / C16 models:
//   - maxQueuedControlFrames, defaultMaxStreams (constants)
//   - the factor k of `len(sc.unstartedHandlers) > int(k*sc.advMaxStreams)` in scheduleHandler
//   - the comparison operators of scheduleHandler (`sc.curHandlers < maxHandlers`) and of the serve
//     loop's control-frame check (`sc.queuedControlFrames > maxQueuedControlFrames`), as strings
//   - connHeaders, lower-cased (the wire form the model compares with)
//   - the literals of checkValidHTTP2RequestHeaders' TE rule
// Fails on any unrecognised shape.

import (
	"bytes"
	"fmt"
	"go/ast"
	"go/printer"
	"go/token"
	"path/filepath"
	"strings"
)

// c15Src prints an expression as Go source.
func c15Src(e ast.Expr) string {
	var buf bytes.Buffer
	printer.Fprint(&buf, token.NewFileSet(), e)
	return buf.String()
}

func init() {
	register("c15", c15Extract)
}

func c15Extract(repo string, args []string) (string, error) {
	p, err := LoadPkg(filepath.Join(repo, "http2"), false)
	if err != nil {
		return "", err
	}
	var b strings.Builder
	b.WriteString(Header("Limits of the HTTP/2 server connection logic.", "http2/server.go"))
	b.WriteString("namespace NetVerif.Gen.C15\n\n")
	for _, c := range []string{"maxQueuedControlFrames", "defaultMaxStreams"} {
		v, err := p.ConstInt(c)
		if err != nil {
			return "", err
		}
		b.WriteString("def " + c + " : Nat := " + v + "\n")
	}

	// scheduleHandler: `if sc.curHandlers < maxHandlers {` and `len(sc.unstartedHandlers) > int(k*sc.advMaxStreams)`
	fd, err := p.Func("serverConn.scheduleHandler")
	if err != nil {
		return "", err
	}
	factor, slotOp, queueOp := "", "", ""
	ast.Inspect(fd.Body, func(n ast.Node) bool {
		be, ok := n.(*ast.BinaryExpr)
		if !ok {
			return true
		}
		l, r := c15Src(be.X), c15Src(be.Y)
		if l == "sc.curHandlers" && r == "maxHandlers" {
			slotOp = be.Op.String()
		}
		if l == "len(sc.unstartedHandlers)" {
			queueOp = be.Op.String()
			if call, ok := be.Y.(*ast.CallExpr); ok && len(call.Args) == 1 {
				if m, ok := call.Args[0].(*ast.BinaryExpr); ok && m.Op == token.MUL && c15Src(m.Y) == "sc.advMaxStreams" {
					if v, err := p.EvalInt(m.X); err == nil {
						factor = v
					}
				}
			}
		}
		return true
	})
	if factor == "" || slotOp == "" || queueOp == "" {
		return "", fmt.Errorf("scheduleHandler: shape not recognised (factor=%q slotOp=%q queueOp=%q)", factor, slotOp, queueOp)
	}
	b.WriteString("def unstartedFactor : Nat := " + factor + "\n")
	b.WriteString("/-- operator of `sc.curHandlers ? maxHandlers` in scheduleHandler -/\n")
	b.WriteString("def slotOp : String := \"" + slotOp + "\"\n")
	b.WriteString("/-- operator of `len(sc.unstartedHandlers) ? int(k*sc.advMaxStreams)` -/\n")
	b.WriteString("def queueOp : String := \"" + queueOp + "\"\n")

	// serve: `if sc.queuedControlFrames > maxQueuedControlFrames {`
	fd, err = p.Func("serverConn.serve")
	if err != nil {
		return "", err
	}
	ctlOp := ""
	ast.Inspect(fd.Body, func(n ast.Node) bool {
		if be, ok := n.(*ast.BinaryExpr); ok && c15Src(be.X) == "sc.queuedControlFrames" && c15Src(be.Y) == "maxQueuedControlFrames" {
			ctlOp = be.Op.String()
		}
		return true
	})
	if ctlOp == "" {
		return "", fmt.Errorf("serve: control-frame check not found")
	}
	b.WriteString("/-- operator of `sc.queuedControlFrames ? maxQueuedControlFrames` in serve -/\n")
	b.WriteString("def ctlOp : String := \"" + ctlOp + "\"\n")

	// handlerDone: `if sc.curHandlers >= maxHandlers { break }`
	fd, err = p.Func("serverConn.handlerDone")
	if err != nil {
		return "", err
	}
	doneOp := ""
	ast.Inspect(fd.Body, func(n ast.Node) bool {
		if be, ok := n.(*ast.BinaryExpr); ok && c15Src(be.X) == "sc.curHandlers" && c15Src(be.Y) == "maxHandlers" {
			doneOp = be.Op.String()
		}
		return true
	})
	if doneOp == "" {
		return "", fmt.Errorf("handlerDone: slot check not found")
	}
	b.WriteString("/-- operator of `sc.curHandlers ? maxHandlers` (break) in handlerDone -/\n")
	b.WriteString("def doneOp : String := \"" + doneOp + "\"\n")

	// processHeaders: `if sc.curClientStreams+1 > sc.advMaxStreams {`
	fd, err = p.Func("serverConn.processHeaders")
	if err != nil {
		return "", err
	}
	streamCheck := ""
	ast.Inspect(fd.Body, func(n ast.Node) bool {
		if be, ok := n.(*ast.BinaryExpr); ok && c15Src(be.Y) == "sc.advMaxStreams" && strings.HasPrefix(c15Src(be.X), "sc.curClientStreams") {
			streamCheck = c15Src(be.X) + " " + be.Op.String() + " " + c15Src(be.Y)
		}
		return true
	})
	if streamCheck == "" {
		return "", fmt.Errorf("processHeaders: stream limit check not found")
	}
	b.WriteString("def streamLimitCheck : String := \"" + streamCheck + "\"\n\n")

	// connHeaders
	e, err := p.Var("connHeaders")
	if err != nil {
		return "", err
	}
	cl, ok := e.(*ast.CompositeLit)
	if !ok {
		return "", fmt.Errorf("connHeaders: not a composite literal")
	}
	var hs []string
	for i, el := range cl.Elts {
		s, err := p.EvalString(el)
		if err != nil {
			return "", fmt.Errorf("connHeaders: %w", err)
		}
		sep := ","
		if i == len(cl.Elts)-1 {
			sep = ""
		}
		hs = append(hs, "  "+LeanBytes(strings.ToLower(s))+sep+"  -- "+s)
	}
	b.WriteString("/-- `connHeaders` of server.go, lower-cased -/\n")
	b.WriteString("def connHeadersLower : List (List Nat) := [\n" + strings.Join(hs, "\n") + "\n  ]\n\n")

	// checkValidHTTP2RequestHeaders: te := h["Te"]; ... te[0] != "trailers" && te[0] != ""
	fd, err = p.Func("checkValidHTTP2RequestHeaders")
	if err != nil {
		return "", err
	}
	var teLits []string
	teKey := ""
	ast.Inspect(fd.Body, func(n ast.Node) bool {
		switch x := n.(type) {
		case *ast.BinaryExpr:
			if x.Op == token.NEQ && c15Src(x.X) == "te[0]" {
				if s, err := p.EvalString(x.Y); err == nil {
					teLits = append(teLits, s)
				}
			}
		case *ast.AssignStmt:
			if len(x.Lhs) == 1 && c15Src(x.Lhs[0]) == "te" && len(x.Rhs) == 1 {
				if ix, ok := x.Rhs[0].(*ast.IndexExpr); ok {
					if s, err := p.EvalString(ix.Index); err == nil {
						teKey = s
					}
				}
			}
		}
		return true
	})
	if len(teLits) != 2 || teKey == "" {
		return "", fmt.Errorf("checkValidHTTP2RequestHeaders: TE rule not recognised (%q, key %q)", teLits, teKey)
	}
	b.WriteString("/-- header key of the TE rule, lower-cased, and the two values it accepts -/\n")
	b.WriteString("def teKeyLower : List Nat := " + LeanBytes(strings.ToLower(teKey)) + "\n")
	b.WriteString("def teAccepted : List (List Nat) := [" + LeanBytes(teLits[0]) + ", " + LeanBytes(teLits[1]) + "]\n\n")
	b.WriteString("end NetVerif.Gen.C15\n")
	return b.String(), nil
}
