// Command extract is E-extract: it reads Go sources under a /repo checkout
// and prints Lean source (tables, constants, translated functions) on stdout.
//
//	extract <name> <repo-root> [args...]
//
// Each extractor lives in its own file and registers itself in init().
// An extractor must fail loudly (non-zero exit) on any source shape it does
// not understand: a silently wrong Gen file would weaken the tie.
package main

import (
	"fmt"
	"os"
	"sort"
)

type extractor func(repo string, args []string) (string, error)

var registry = map[string]extractor{}

func register(name string, f extractor) { registry[name] = f }

func main() {
	if len(os.Args) < 3 {
		names := []string{}
		for n := range registry {
			names = append(names, n)
		}
		sort.Strings(names)
		fmt.Fprintln(os.Stderr, "usage: extract <name> <repo-root> [args]; extractors:", names)
		os.Exit(2)
	}
	f, ok := registry[os.Args[1]]
	if !ok {
		fmt.Fprintln(os.Stderr, "unknown extractor", os.Args[1])
		os.Exit(2)
	}
	out, err := f(os.Args[2], os.Args[3:])
	if err != nil {
		fmt.Fprintln(os.Stderr, "extract", os.Args[1]+":", err)
		os.Exit(1)
	}
	fmt.Print(out)
}
