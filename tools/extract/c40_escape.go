package main

// c40: the data behind html.EscapeString / UnescapeString as Lean definitions:
//   - escapedChars and the byte -> replacement table read out of the switch in func escape,
//   - replacementTable (Windows-1252 numeric references), longestEntityWithoutSemicolon,
//   - the named character reference maps `entity` and `entity2`, keys encoded as big-endian
//     base-256 numbers (names are non-empty alphanumerics plus ';', so the encoding is injective).

import (
	"fmt"
	"go/ast"
	"go/token"
	"math/big"
	"path/filepath"
	"sort"
	"strconv"
	"strings"
)

func c40Key(name string) (*big.Int, error) {
	if name == "" {
		return nil, fmt.Errorf("empty entity name")
	}
	k := new(big.Int)
	for i := 0; i < len(name); i++ {
		c := name[i]
		alnum := 'a' <= c && c <= 'z' || 'A' <= c && c <= 'Z' || '0' <= c && c <= '9'
		if !(alnum || (c == ';' && i == len(name)-1)) {
			return nil, fmt.Errorf("entity name %q is not alphanumeric(+';')", name)
		}
		k.Lsh(k, 8)
		k.Or(k, big.NewInt(int64(c)))
	}
	return k, nil
}

func init() {
	register("c40", func(repo string, args []string) (string, error) {
		p, err := LoadPkg(filepath.Join(repo, "html"), false)
		if err != nil {
			return "", err
		}
		var b strings.Builder
		b.WriteString(Header("HTML escaping tables.", "html/escape.go", "html/entity.go"))
		b.WriteString("namespace NetVerif.Gen.C40\n\n")

		// escapedChars
		ec, err := p.Const("escapedChars")
		if err != nil {
			return "", err
		}
		_ = ec
		ecs, err := p.EvalString(&ast.Ident{Name: "escapedChars"})
		if err != nil {
			return "", err
		}
		b.WriteString("def escapedChars : List Nat := " + LeanBytes(ecs) + "\n\n")

		// switch in func escape
		tab, err := c40EscapeSwitch(p)
		if err != nil {
			return "", err
		}
		seen := map[byte]bool{}
		b.WriteString("/-- byte ↦ replacement, from the `switch s[i]` of func escape, in source order -/\n")
		b.WriteString("def escTable : List (Nat × List Nat) := [\n")
		for i, e := range tab {
			if seen[e.c] {
				return "", fmt.Errorf("escape: duplicate case %q", e.c)
			}
			seen[e.c] = true
			sep := ","
			if i == len(tab)-1 {
				sep = ""
			}
			fmt.Fprintf(&b, "  (%d, %s)%s\n", e.c, LeanBytes(e.esc), sep)
		}
		b.WriteString("]\n\n")
		for i := 0; i < len(ecs); i++ {
			if !seen[ecs[i]] {
				return "", fmt.Errorf("escape: escapedChars byte %q has no case (the default panics)", ecs[i])
			}
		}
		if len(ecs) != len(tab) {
			return "", fmt.Errorf("escape: %d cases for %d escapedChars", len(tab), len(ecs))
		}

		// replacementTable
		rv, err := p.Var("replacementTable")
		if err != nil {
			return "", err
		}
		rcl, ok := rv.(*ast.CompositeLit)
		if !ok {
			return "", fmt.Errorf("replacementTable: not a composite literal")
		}
		var reps []string
		for _, el := range rcl.Elts {
			if _, ok := el.(*ast.KeyValueExpr); ok {
				return "", fmt.Errorf("replacementTable: keyed element not understood")
			}
			v, err := p.EvalInt(el)
			if err != nil {
				return "", fmt.Errorf("replacementTable: %w", err)
			}
			reps = append(reps, v)
		}
		b.WriteString("def replacementTable : List Nat := [" + strings.Join(reps, ", ") + "]\n\n")

		l, err := p.ConstInt("longestEntityWithoutSemicolon")
		if err != nil {
			return "", err
		}
		b.WriteString("def longestEntityWithoutSemicolon : Nat := " + l + "\n\n")

		// entity
		type ent struct {
			key  *big.Int
			name string
			v    []string
		}
		load := func(varName string, width int) ([]ent, error) {
			ev, err := p.Var(varName)
			if err != nil {
				return nil, err
			}
			cl, ok := ev.(*ast.CompositeLit)
			if !ok {
				return nil, fmt.Errorf("%s: not a composite literal", varName)
			}
			if _, ok := cl.Type.(*ast.MapType); !ok {
				return nil, fmt.Errorf("%s: not a map", varName)
			}
			var out []ent
			dup := map[string]bool{}
			for _, el := range cl.Elts {
				kv, ok := el.(*ast.KeyValueExpr)
				if !ok {
					return nil, fmt.Errorf("%s: element without key", varName)
				}
				name, err := p.EvalString(kv.Key)
				if err != nil {
					return nil, fmt.Errorf("%s key: %w", varName, err)
				}
				if dup[name] {
					return nil, fmt.Errorf("%s: duplicate key %q", varName, name)
				}
				dup[name] = true
				k, err := c40Key(name)
				if err != nil {
					return nil, err
				}
				var vals []string
				if width == 1 {
					v, err := p.EvalInt(kv.Value)
					if err != nil {
						return nil, fmt.Errorf("%s[%q]: %w", varName, name, err)
					}
					vals = []string{v}
				} else {
					vcl, ok := kv.Value.(*ast.CompositeLit)
					if !ok || len(vcl.Elts) != width {
						return nil, fmt.Errorf("%s[%q]: expected %d runes", varName, name, width)
					}
					for _, x := range vcl.Elts {
						v, err := p.EvalInt(x)
						if err != nil {
							return nil, fmt.Errorf("%s[%q]: %w", varName, name, err)
						}
						vals = append(vals, v)
					}
				}
				for _, v := range vals {
					n, err := strconv.ParseInt(v, 10, 64)
					if err != nil || n < 0 || n > 0x10FFFF {
						return nil, fmt.Errorf("%s[%q]: rune %s out of range", varName, name, v)
					}
				}
				out = append(out, ent{k, name, vals})
			}
			sort.Slice(out, func(i, j int) bool { return out[i].key.Cmp(out[j].key) < 0 })
			return out, nil
		}
		e1, err := load("entity", 1)
		if err != nil {
			return "", err
		}
		// a 2000-element literal exceeds Lean's elaborator recursion depth: emit chunks
		const chunk = 200
		var parts []string
		for c := 0; c*chunk < len(e1); c++ {
			name := fmt.Sprintf("entityTable%d", c)
			parts = append(parts, name)
			b.WriteString("def " + name + " : List (Nat × Nat) := [\n")
			hi := min((c+1)*chunk, len(e1))
			for i := c * chunk; i < hi; i++ {
				sep := ","
				if i == hi-1 {
					sep = ""
				}
				fmt.Fprintf(&b, "  (%s, %s)%s -- %s\n", e1[i].key.String(), e1[i].v[0], sep, e1[i].name)
			}
			b.WriteString("]\n")
		}
		b.WriteString("\n/-- `entity`: (name as big-endian base-256 number, rune), sorted by key -/\n")
		b.WriteString("def entityTable : List (Nat × Nat) :=\n  " + strings.Join(parts, " ++ ") + "\n")
		fmt.Fprintf(&b, "def entityCount : Nat := %d\n\n", len(e1))
		e2, err := load("entity2", 2)
		if err != nil {
			return "", err
		}
		b.WriteString("/-- `entity2`: (name key, first rune, second rune), sorted by key -/\n")
		b.WriteString("def entity2Table : List (Nat × Nat × Nat) := [\n")
		for i, e := range e2 {
			sep := ","
			if i == len(e2)-1 {
				sep = ""
			}
			fmt.Fprintf(&b, "  (%s, %s, %s)%s -- %s\n", e.key.String(), e.v[0], e.v[1], sep, e.name)
		}
		b.WriteString("]\n\n")
		b.WriteString("end NetVerif.Gen.C40\n")
		return b.String(), nil
	})
}

type c40Esc struct {
	c   byte
	esc string
}

// c40EscapeSwitch reads `switch s[i] { case 'c': esc = "..." ... default: panic }` out of func escape.
func c40EscapeSwitch(p *Pkg) ([]c40Esc, error) {
	fd, err := p.Func("escape")
	if err != nil {
		return nil, err
	}
	var sw *ast.SwitchStmt
	n := 0
	ast.Inspect(fd.Body, func(nd ast.Node) bool {
		if s, ok := nd.(*ast.SwitchStmt); ok {
			sw = s
			n++
		}
		return true
	})
	if n != 1 || sw.Tag == nil {
		return nil, fmt.Errorf("escape: expected exactly one tagged switch, found %d", n)
	}
	if ix, ok := sw.Tag.(*ast.IndexExpr); !ok || exprString(ix.X) != "s" {
		return nil, fmt.Errorf("escape: switch tag is not s[i]")
	}
	var out []c40Esc
	sawDefault := false
	for _, st := range sw.Body.List {
		cc := st.(*ast.CaseClause)
		if cc.List == nil {
			sawDefault = true
			if len(cc.Body) != 1 {
				return nil, fmt.Errorf("escape: default case is not a single panic")
			}
			es, ok := cc.Body[0].(*ast.ExprStmt)
			if !ok {
				return nil, fmt.Errorf("escape: default case is not a panic")
			}
			call, ok := es.X.(*ast.CallExpr)
			if !ok || exprString(call.Fun) != "panic" {
				return nil, fmt.Errorf("escape: default case is not a panic")
			}
			continue
		}
		if len(cc.Body) != 1 {
			return nil, fmt.Errorf("%s: escape: case body not understood", p.Fset.Position(cc.Pos()))
		}
		as, ok := cc.Body[0].(*ast.AssignStmt)
		if !ok || as.Tok != token.ASSIGN || len(as.Lhs) != 1 || len(as.Rhs) != 1 || exprString(as.Lhs[0]) != "esc" {
			return nil, fmt.Errorf("%s: escape: case body is not `esc = \"...\"`", p.Fset.Position(cc.Pos()))
		}
		esc, err := p.EvalString(as.Rhs[0])
		if err != nil {
			return nil, fmt.Errorf("escape: %w", err)
		}
		for _, ce := range cc.List {
			v, err := p.EvalInt(ce)
			if err != nil {
				return nil, fmt.Errorf("escape: case label: %w", err)
			}
			c, _ := strconv.Atoi(v)
			if c < 0 || c > 255 {
				return nil, fmt.Errorf("escape: case label %s is not a byte", v)
			}
			out = append(out, c40Esc{byte(c), esc})
		}
	}
	if !sawDefault {
		return nil, fmt.Errorf("escape: switch has no default")
	}
	return out, nil
}
