package main

// c58: netutil/listen.go (LimitListener) as ChanSem DSL terms
// (lean/NetVerif/Model/LimitListener.lean). Fails on any unrecognised shape.

import (
	"fmt"
	"go/ast"
	"path/filepath"
	"strings"
)

func init() {
	register("c58", c58Extract)
}

func c58StructFieldType(p *Pkg, typ, field string) string {
	for _, f := range p.Files {
		for _, d := range f.Decls {
			gd, ok := d.(*ast.GenDecl)
			if !ok {
				continue
			}
			for _, s := range gd.Specs {
				ts, ok := s.(*ast.TypeSpec)
				if !ok || ts.Name.Name != typ {
					continue
				}
				st, ok := ts.Type.(*ast.StructType)
				if !ok {
					continue
				}
				for _, fl := range st.Fields.List {
					for _, n := range fl.Names {
						if n.Name == field {
							return c29Src(p, fl.Type)
						}
					}
				}
			}
		}
	}
	return ""
}

func c58Stmts(p *Pkg, fn string, table map[string]string) (string, error) {
	fd, err := p.Func(fn)
	if err != nil {
		return "", err
	}
	if len(fd.Recv.List[0].Names) != 1 || fd.Recv.List[0].Names[0].Name != "l" {
		return "", fmt.Errorf("%s: receiver is not named l", fn)
	}
	out := []string{}
	for _, st := range fd.Body.List {
		t := c29Src(p, st)
		// comments inside blocks are not printed by go/printer for a bare node, so t is code only
		v, ok := table[t]
		if !ok {
			return "", fmt.Errorf("%s: unsupported statement %q", fn, t)
		}
		out = append(out, v)
	}
	return "[" + strings.Join(out, ", ") + "]", nil
}

func c58Extract(repo string, args []string) (string, error) {
	p, err := LoadPkg(filepath.Join(repo, "netutil"), false)
	if err != nil {
		return "", err
	}
	var b strings.Builder
	b.WriteString(Header("Channel/select structure of LimitListener as ChanSem DSL terms.", "netutil/listen.go"))
	b.WriteString("import NetVerif.Model.LimitListener\nnamespace NetVerif.Gen.C58\nopen NetVerif.Model.ChanSem NetVerif.Model.LimitListener\n\n")

	// constructor: capacities
	ctor, err := p.Func("LimitListener")
	if err != nil {
		return "", err
	}
	if c29Src(p, ctor.Type.Params) != "(l net.Listener, n int)" && c29Src(p, ctor.Type) != "func(l net.Listener, n int) net.Listener" {
		return "", fmt.Errorf("LimitListener: unexpected signature %q", c29Src(p, ctor.Type))
	}
	cl := c29FindCompositeLit(ctor, "limitListener")
	if cl == nil {
		return "", fmt.Errorf("LimitListener: no limitListener{...} literal")
	}
	caps, err := c29ChanCaps(p, cl)
	if err != nil {
		return "", err
	}
	if len(caps) != 2 {
		return "", fmt.Errorf("LimitListener: expected channels sem and done, got %v", caps)
	}
	if caps["sem"] != "n" {
		return "", fmt.Errorf("LimitListener: sem capacity is %q, expected the parameter n", caps["sem"])
	}
	doneCap, ok := caps["done"]
	if !ok {
		return "", fmt.Errorf("LimitListener: done is not made")
	}
	if doneCap == "" {
		doneCap = "0"
	} else {
		for _, ch := range doneCap {
			if ch < '0' || ch > '9' {
				return "", fmt.Errorf("LimitListener: done capacity %q is not a literal", doneCap)
			}
		}
	}
	// the literal must also wire Listener: l
	if !strings.Contains(c29Src(p, cl), "Listener: l,") {
		return "", fmt.Errorf("LimitListener: literal does not embed Listener: l")
	}
	if t := c58StructFieldType(p, "limitListener", "closeOnce"); t != "sync.Once" {
		return "", fmt.Errorf("limitListener.closeOnce has type %q, expected sync.Once", t)
	}
	if t := c58StructFieldType(p, "limitListenerConn", "releaseOnce"); t != "sync.Once" {
		return "", fmt.Errorf("limitListenerConn.releaseOnce has type %q, expected sync.Once", t)
	}
	if t := c58StructFieldType(p, "limitListenerConn", "release"); t != "func()" {
		return "", fmt.Errorf("limitListenerConn.release has type %q, expected func()", t)
	}

	ctx := &c29SelCtx{p: p,
		chans: map[string]string{"l.sem": "LCh.sem", "l.done": "LCh.done"},
		rets:  map[string]string{"true": "LRes.tt", "false": "LRes.ff"}}
	b.WriteString("def listen : ListenSrc :=\n  { semCapIsParam := true, doneCap := " + doneCap + ",\n")
	for _, m := range []string{"acquire", "release"} {
		fd, err := p.Func("limitListener." + m)
		if err != nil {
			return "", err
		}
		if len(fd.Recv.List[0].Names) != 1 || fd.Recv.List[0].Names[0].Name != "l" {
			return "", fmt.Errorf("%s: receiver is not named l", m)
		}
		s, err := ctx.method(fd)
		if err != nil {
			return "", err
		}
		b.WriteString("    " + m + " := " + s + ",\n")
	}
	accept, err := c58Stmts(p, "limitListener.Accept", map[string]string{
		"if !l.acquire() { for { c, err := l.Listener.Accept() if err != nil { return nil, err } c.Close() } }": "LStmt.ifNotAcquireDrain",
		"c, err := l.Listener.Accept()":                               "LStmt.innerAccept",
		"if err != nil { l.release() return nil, err }":               "LStmt.ifErrReleaseRet",
		"return &limitListenerConn{Conn: c, release: l.release}, nil": "LStmt.retConn",
	})
	if err != nil {
		return "", err
	}
	b.WriteString("    accept := " + accept + ",\n")
	cls, err := c58Stmts(p, "limitListener.Close", map[string]string{
		"err := l.Listener.Close()":                "LStmt.innerClose",
		"l.closeOnce.Do(func() { close(l.done) })": "LStmt.onceCloseDone",
		"return err": "LStmt.retErr",
	})
	if err != nil {
		return "", err
	}
	b.WriteString("    close := " + cls + ",\n")
	cc, err := c58Stmts(p, "limitListenerConn.Close", map[string]string{
		"err := l.Conn.Close()":       "LStmt.innerClose",
		"l.releaseOnce.Do(l.release)": "LStmt.onceRelease",
		"return err":                  "LStmt.retErr",
	})
	if err != nil {
		return "", err
	}
	b.WriteString("    connClose := " + cc + " }\n\nend NetVerif.Gen.C58\n")
	return b.String(), nil
}
