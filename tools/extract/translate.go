package main

// TranslateFunc is the restricted-fragment translator of DESIGN.md §2.1:
// straight-line integer (and byte-slice building) Go functions become Lean
// definitions that mirror the Go expression tree. Supported:
//
//	statements : if/else, tagless and tagged switch, return, panic(...),
//	             :=, =, op=, ++/--, var x T = e, block statements
//	expressions: literals, parameters/locals, package constants (inlined),
//	             + - * / %, << >> by constants, & | ^(unsupported), comparisons,
//	             && || !, min/max, len(x), x[i], append(x, e...), conversions,
//	             receiver fields (recv.f becomes variable recv_f)
//
// Everything else is an error: the translator fails loudly instead of
// guessing. Result type is `Option T`: `none` is a Go panic (or falling off
// the end). Integer semantics are UNBOUNDED (`Nat` or `Int`): the theorems
// that use a translated function state the no-overflow hypotheses; narrowing
// conversions to unsigned types (`byte`, `uint16`, `uint32`) are rendered as
// `% 2^k`, all other integer conversions as the identity.
// For methods, `Fields` lists receiver fields that are read or written; they
// become leading parameters `recv_f` and, when `ReturnFields` is set, their
// final values are appended to every returned tuple.

import (
	"fmt"
	"go/ast"
	"go/token"
	"strings"
)

type TransOpts struct {
	LeanName     string
	Num          string   // "Nat" or "Int"
	Fields       []string // receiver fields used
	ReturnFields bool
	BoolResult   bool              // results of Go type bool are rendered with `decide`
	ParamTypes   map[string]string // override Lean type per parameter name
	Calls        map[string]string // Go callee (e.g. "f.available" or "abs") -> Lean function name; args passed through
}

type trans struct {
	p      *Pkg
	o      TransOpts
	recv   string
	locals map[string]bool
	nret   int
	err    error
}

func (t *trans) fail(n ast.Node, format string, a ...any) string {
	if t.err == nil {
		t.err = fmt.Errorf("%s: %s", t.p.Fset.Position(n.Pos()), fmt.Sprintf(format, a...))
	}
	return "sorry_untranslatable"
}

func TranslateFunc(p *Pkg, name string, o TransOpts) (string, error) {
	fd, err := p.Func(name)
	if err != nil {
		return "", err
	}
	if o.Num == "" {
		o.Num = "Int"
	}
	t := &trans{p: p, o: o, locals: map[string]bool{}}
	var params []string
	if fd.Recv != nil && len(fd.Recv.List) == 1 && len(fd.Recv.List[0].Names) == 1 {
		t.recv = fd.Recv.List[0].Names[0].Name
		for _, f := range o.Fields {
			params = append(params, fmt.Sprintf("(%s_%s : %s)", t.recv, f, o.Num))
			t.locals[t.recv+"_"+f] = true
		}
	}
	for _, fl := range fd.Type.Params.List {
		for _, n := range fl.Names {
			ty := t.leanType(fl.Type)
			if ov, ok := o.ParamTypes[n.Name]; ok {
				ty = ov
			}
			params = append(params, fmt.Sprintf("(%s : %s)", n.Name, ty))
			t.locals[n.Name] = true
		}
	}
	var rts []string
	if fd.Type.Results != nil {
		for _, fl := range fd.Type.Results.List {
			k := len(fl.Names)
			if k == 0 {
				k = 1
			}
			for i := 0; i < k; i++ {
				rts = append(rts, t.leanType(fl.Type))
			}
			for _, n := range fl.Names {
				t.locals[n.Name] = true // named results (must be assigned before bare return)
			}
		}
	}
	t.nret = len(rts)
	if o.ReturnFields {
		for range o.Fields {
			rts = append(rts, o.Num)
		}
	}
	rt := "Unit"
	if len(rts) > 0 {
		rt = strings.Join(rts, " × ")
	}
	body := t.block(fd.Body.List, t.fallOff(fd), 1)
	if t.err != nil {
		return "", t.err
	}
	return fmt.Sprintf("/-- translated from Go `%s` (%s) -/\ndef %s %s : Option (%s) :=\n%s\n",
		name, relFile(t.p.Fset.Position(fd.Pos()).Filename), o.LeanName, strings.Join(params, " "), rt, body), nil
}

// fallOff is what reaching the end of the function body means.
func (t *trans) fallOff(fd *ast.FuncDecl) string {
	if fd.Type.Results == nil || len(fd.Type.Results.List) == 0 {
		return t.ret(nil, fd)
	}
	return "none"
}

func (t *trans) leanType(e ast.Expr) string {
	switch x := e.(type) {
	case *ast.Ident:
		switch x.Name {
		case "bool":
			return "Bool"
		case "int", "int8", "int16", "int32", "int64", "uint", "uint8", "uint16", "uint32", "uint64", "byte", "uintptr":
			return t.o.Num
		}
		return t.o.Num // named integer types (packetNumber, streamID, ...)
	case *ast.ArrayType:
		if x.Len == nil {
			return "List " + t.o.Num
		}
	}
	return t.fail(e, "unsupported type %T", e)
}

func ind(n int) string { return strings.Repeat("  ", n) }

func (t *trans) ret(results []ast.Expr, at ast.Node) string {
	var parts []string
	for _, r := range results {
		parts = append(parts, t.expr(r))
	}
	if len(results) == 0 && t.nret > 0 {
		return t.fail(at, "bare return with named results is unsupported")
	}
	if t.o.ReturnFields {
		for _, f := range t.o.Fields {
			parts = append(parts, t.recv+"_"+f)
		}
	}
	if len(parts) == 0 {
		return "some ()"
	}
	return "some (" + strings.Join(parts, ", ") + ")"
}

// block translates stmts with continuation k (a Lean term) for fall-through.
func (t *trans) block(stmts []ast.Stmt, k string, d int) string {
	if len(stmts) == 0 {
		return ind(d) + k
	}
	s, rest := stmts[0], stmts[1:]
	switch x := s.(type) {
	case *ast.ReturnStmt:
		return ind(d) + t.ret(x.Results, x)
	case *ast.ExprStmt:
		if c, ok := x.X.(*ast.CallExpr); ok {
			if id, ok := c.Fun.(*ast.Ident); ok && id.Name == "panic" {
				return ind(d) + "none"
			}
		}
		return ind(d) + t.fail(s, "unsupported expression statement")
	case *ast.BlockStmt:
		return t.block(append(append([]ast.Stmt{}, x.List...), rest...), k, d)
	case *ast.IfStmt:
		pre := ""
		if x.Init != nil {
			return t.block(append([]ast.Stmt{x.Init, &ast.IfStmt{If: x.If, Cond: x.Cond, Body: x.Body, Else: x.Else}}, rest...), k, d)
		}
		r := strings.TrimLeft(t.block(rest, k, d+1), " ")
		var els string
		switch e := x.Else.(type) {
		case nil:
			els = ind(d+1) + r
		case *ast.BlockStmt:
			els = t.block(e.List, r, d+1)
		case *ast.IfStmt:
			els = t.block([]ast.Stmt{e}, r, d+1)
		}
		return pre + ind(d) + "if " + t.cond(x.Cond) + " then\n" + t.block(x.Body.List, r, d+1) + "\n" + ind(d) + "else\n" + els
	case *ast.SwitchStmt:
		if x.Init != nil {
			return t.block(append([]ast.Stmt{x.Init, &ast.SwitchStmt{Switch: x.Switch, Tag: x.Tag, Body: x.Body}}, rest...), k, d)
		}
		r := strings.TrimLeft(t.block(rest, k, d+1), " ")
		var def *ast.CaseClause
		var out strings.Builder
		depth := d
		for _, c := range x.Body.List {
			cc := c.(*ast.CaseClause)
			if cc.List == nil {
				def = cc
				continue
			}
			var conds []string
			for _, e := range cc.List {
				if x.Tag != nil {
					conds = append(conds, t.expr(x.Tag)+" = "+t.expr(e))
				} else {
					conds = append(conds, t.cond(e))
				}
			}
			for _, st := range cc.Body {
				if b, ok := st.(*ast.BranchStmt); ok && b.Tok == token.FALLTHROUGH {
					return t.fail(b, "fallthrough unsupported")
				}
			}
			out.WriteString(ind(depth) + "if " + strings.Join(conds, " ∨ ") + " then\n" + t.block(cc.Body, r, depth+1) + "\n" + ind(depth) + "else\n")
			depth++
		}
		if def != nil {
			out.WriteString(t.block(def.Body, r, depth))
		} else {
			out.WriteString(ind(depth) + r)
		}
		return out.String()
	case *ast.AssignStmt:
		if len(x.Lhs) != len(x.Rhs) {
			return ind(d) + t.fail(s, "multi-value assignment unsupported")
		}
		var out strings.Builder
		// evaluate all RHS first when parallel
		if len(x.Lhs) > 1 {
			for i, r := range x.Rhs {
				out.WriteString(fmt.Sprintf("%slet tmp_%d := %s\n", ind(d), i, t.expr(r)))
			}
		}
		for i, l := range x.Lhs {
			name := t.lhs(l)
			var rhs string
			if len(x.Lhs) > 1 {
				rhs = fmt.Sprintf("tmp_%d", i)
			} else {
				rhs = t.expr(x.Rhs[i])
			}
			switch x.Tok {
			case token.DEFINE, token.ASSIGN:
			case token.ADD_ASSIGN:
				rhs = "(" + name + " + " + rhs + ")"
			case token.SUB_ASSIGN:
				rhs = "(" + name + " - " + rhs + ")"
			case token.MUL_ASSIGN:
				rhs = "(" + name + " * " + rhs + ")"
			default:
				return ind(d) + t.fail(s, "assignment operator %s unsupported", x.Tok)
			}
			if name == "_" {
				continue
			}
			t.locals[name] = true
			out.WriteString(fmt.Sprintf("%slet %s := %s\n", ind(d), name, rhs))
		}
		return out.String() + t.block(rest, k, d)
	case *ast.IncDecStmt:
		name := t.lhs(x.X)
		op := " + 1"
		if x.Tok == token.DEC {
			op = " - 1"
		}
		return fmt.Sprintf("%slet %s := %s%s\n", ind(d), name, name, op) + t.block(rest, k, d)
	case *ast.DeclStmt:
		gd, ok := x.Decl.(*ast.GenDecl)
		if !ok || (gd.Tok != token.VAR && gd.Tok != token.CONST) {
			return ind(d) + t.fail(s, "unsupported declaration")
		}
		var out strings.Builder
		for _, sp := range gd.Specs {
			vs := sp.(*ast.ValueSpec)
			for i, n := range vs.Names {
				v := "0"
				if i < len(vs.Values) {
					v = t.expr(vs.Values[i])
				} else if vs.Type != nil && t.leanType(vs.Type) == "Bool" {
					v = "false"
				}
				t.locals[n.Name] = true
				out.WriteString(fmt.Sprintf("%slet %s := %s\n", ind(d), n.Name, v))
			}
		}
		return out.String() + t.block(rest, k, d)
	case *ast.EmptyStmt:
		return t.block(rest, k, d)
	}
	return ind(d) + t.fail(s, "unsupported statement %T", s)
}

func (t *trans) lhs(e ast.Expr) string {
	switch x := e.(type) {
	case *ast.Ident:
		return x.Name
	case *ast.SelectorExpr:
		if id, ok := x.X.(*ast.Ident); ok && id.Name == t.recv && t.hasField(x.Sel.Name) {
			return t.recv + "_" + x.Sel.Name
		}
	}
	return t.fail(e, "unsupported assignment target")
}

func (t *trans) hasField(f string) bool {
	for _, x := range t.o.Fields {
		if x == f {
			return true
		}
	}
	return false
}

// cond renders a boolean expression as a decidable Prop.
func (t *trans) cond(e ast.Expr) string {
	switch x := e.(type) {
	case *ast.ParenExpr:
		return "(" + t.cond(x.X) + ")"
	case *ast.UnaryExpr:
		if x.Op == token.NOT {
			return "¬ (" + t.cond(x.X) + ")"
		}
	case *ast.BinaryExpr:
		switch x.Op {
		case token.LAND:
			return "(" + t.cond(x.X) + " ∧ " + t.cond(x.Y) + ")"
		case token.LOR:
			return "(" + t.cond(x.X) + " ∨ " + t.cond(x.Y) + ")"
		case token.EQL:
			return t.expr(x.X) + " = " + t.expr(x.Y)
		case token.NEQ:
			return t.expr(x.X) + " ≠ " + t.expr(x.Y)
		case token.LSS:
			return t.expr(x.X) + " < " + t.expr(x.Y)
		case token.LEQ:
			return t.expr(x.X) + " ≤ " + t.expr(x.Y)
		case token.GTR:
			return t.expr(x.X) + " > " + t.expr(x.Y)
		case token.GEQ:
			return t.expr(x.X) + " ≥ " + t.expr(x.Y)
		}
	case *ast.Ident:
		if x.Name == "true" {
			return "True"
		}
		if x.Name == "false" {
			return "False"
		}
		return x.Name + " = true"
	case *ast.SelectorExpr:
		return t.expr(x) + " = true"
	}
	return t.fail(e, "unsupported condition")
}

var narrowing = map[string]string{"byte": "256", "uint8": "256", "uint16": "65536", "uint32": "4294967296"}
var identityConv = map[string]bool{"int": true, "int8": true, "int16": true, "int32": true, "int64": true,
	"uint": true, "uint64": true, "uintptr": true}

func (t *trans) expr(e ast.Expr) string {
	switch x := e.(type) {
	case *ast.BasicLit:
		if x.Kind == token.INT {
			v, err := t.p.EvalInt(x)
			if err != nil {
				return t.fail(e, "%v", err)
			}
			return v
		}
	case *ast.ParenExpr:
		return "(" + t.expr(x.X) + ")"
	case *ast.Ident:
		if t.locals[x.Name] {
			return x.Name
		}
		if x.Name == "true" || x.Name == "false" {
			return x.Name
		}
		if v, err := t.p.ConstInt(x.Name); err == nil {
			if strings.HasPrefix(v, "-") {
				return "(" + v + ")"
			}
			return v
		}
		return t.fail(e, "unknown identifier %s", x.Name)
	case *ast.SelectorExpr:
		if id, ok := x.X.(*ast.Ident); ok {
			if id.Name == t.recv && t.hasField(x.Sel.Name) {
				return t.recv + "_" + x.Sel.Name
			}
			if id.Name == "math" {
				if v, ok := mathConsts[x.Sel.Name]; ok {
					if strings.HasPrefix(v, "-") {
						return "(" + v + ")"
					}
					return v
				}
			}
		}
		return t.fail(e, "unsupported selector %s", exprString(e))
	case *ast.UnaryExpr:
		switch x.Op {
		case token.SUB:
			return "(-" + t.expr(x.X) + ")"
		case token.ADD:
			return t.expr(x.X)
		case token.NOT:
			return "(!" + t.expr(x.X) + ")"
		}
	case *ast.BinaryExpr:
		a, b := t.expr(x.X), t.expr(x.Y)
		switch x.Op {
		case token.ADD:
			return "(" + a + " + " + b + ")"
		case token.SUB:
			return "(" + a + " - " + b + ")"
		case token.MUL:
			return "(" + a + " * " + b + ")"
		case token.QUO:
			if t.o.Num == "Int" {
				return "(Int.tdiv " + a + " " + b + ")"
			}
			return "(" + a + " / " + b + ")"
		case token.REM:
			if t.o.Num == "Int" {
				return "(Int.tmod " + a + " " + b + ")"
			}
			return "(" + a + " % " + b + ")"
		case token.SHL, token.SHR:
			k, err := t.p.EvalInt(x.Y)
			if err != nil {
				return t.fail(e, "shift by non-constant")
			}
			pw := pow2(k)
			if pw == "" {
				return t.fail(e, "shift count out of range")
			}
			if x.Op == token.SHL {
				return "(" + a + " * " + pw + ")"
			}
			return "(" + a + " / " + pw + ")"
		case token.AND:
			return "(" + a + " &&& " + b + ")"
		case token.OR:
			return "(" + a + " ||| " + b + ")"
		case token.EQL, token.NEQ, token.LSS, token.LEQ, token.GTR, token.GEQ, token.LAND, token.LOR:
			return "(decide (" + t.cond(e) + "))"
		}
	case *ast.IndexExpr:
		i, err := t.p.EvalInt(x.Index)
		if err != nil {
			return t.fail(e, "index must be constant")
		}
		return "(" + t.expr(x.X) + ".getD " + i + " 0)"
	case *ast.CallExpr:
		if id, ok := x.Fun.(*ast.Ident); ok {
			switch {
			case id.Name == "len" && len(x.Args) == 1:
				if t.o.Num == "Int" {
					return "(" + t.expr(x.Args[0]) + ".length : Int)"
				}
				return t.expr(x.Args[0]) + ".length"
			case id.Name == "append" && len(x.Args) >= 1 && !x.Ellipsis.IsValid():
				var parts []string
				for _, a := range x.Args[1:] {
					parts = append(parts, t.expr(a))
				}
				return "(" + t.expr(x.Args[0]) + " ++ [" + strings.Join(parts, ", ") + "])"
			case (id.Name == "min" || id.Name == "max") && len(x.Args) >= 2:
				s := t.expr(x.Args[0])
				for _, a := range x.Args[1:] {
					s = "(" + id.Name + " " + s + " " + t.expr(a) + ")"
				}
				return s
			case narrowing[id.Name] != "" && len(x.Args) == 1:
				if t.o.Num == "Int" {
					return "(Int.emod " + t.expr(x.Args[0]) + " " + narrowing[id.Name] + ")"
				}
				return "(" + t.expr(x.Args[0]) + " % " + narrowing[id.Name] + ")"
			case identityConv[id.Name] && len(x.Args) == 1:
				return t.expr(x.Args[0])
			}
			if ln, ok := t.o.Calls[id.Name]; ok {
				var parts []string
				for _, a := range x.Args {
					parts = append(parts, t.expr(a))
				}
				return "(" + ln + " " + strings.Join(parts, " ") + ")"
			}
			// conversion to a named integer type declared in the package
			if len(x.Args) == 1 && t.isNamedIntType(id.Name) {
				return t.expr(x.Args[0])
			}
		}
		if sel, ok := x.Fun.(*ast.SelectorExpr); ok {
			key := exprString(sel)
			if ln, ok := t.o.Calls[key]; ok {
				var parts []string
				if id, ok := sel.X.(*ast.Ident); ok && id.Name == t.recv {
					for _, f := range t.o.Fields {
						parts = append(parts, t.recv+"_"+f)
					}
				}
				for _, a := range x.Args {
					parts = append(parts, t.expr(a))
				}
				return "(" + ln + " " + strings.Join(parts, " ") + ")"
			}
		}
		return t.fail(e, "unsupported call %s", exprString(x.Fun))
	}
	return t.fail(e, "unsupported expression %T", e)
}

func (t *trans) isNamedIntType(name string) bool {
	for _, f := range t.p.Files {
		for _, d := range f.Decls {
			gd, ok := d.(*ast.GenDecl)
			if !ok || gd.Tok != token.TYPE {
				continue
			}
			for _, s := range gd.Specs {
				ts := s.(*ast.TypeSpec)
				if ts.Name.Name == name {
					if id, ok := ts.Type.(*ast.Ident); ok {
						return identityConv[id.Name] || narrowing[id.Name] != ""
					}
				}
			}
		}
	}
	return false
}

func pow2(k string) string {
	var n int
	if _, err := fmt.Sscanf(k, "%d", &n); err != nil || n < 0 || n > 126 {
		return ""
	}
	v := new(bigInt).lsh(n)
	return v.String()
}

// tiny big-int for powers of two (avoids math/big import noise elsewhere)
type bigInt struct{ digits []int } // little-endian base 10

func (b *bigInt) lsh(n int) *bigInt {
	b.digits = []int{1}
	for i := 0; i < n; i++ {
		carry := 0
		for j := range b.digits {
			v := b.digits[j]*2 + carry
			b.digits[j], carry = v%10, v/10
		}
		if carry > 0 {
			b.digits = append(b.digits, carry)
		}
	}
	return b
}

func (b *bigInt) String() string {
	var sb strings.Builder
	for i := len(b.digits) - 1; i >= 0; i-- {
		sb.WriteByte(byte('0' + b.digits[i]))
	}
	return sb.String()
}

func relFile(f string) string {
	if i := strings.Index(f, "/repo/"); i >= 0 {
		return f[i+6:]
	}
	return f
}
