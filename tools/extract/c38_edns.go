package main

// c38: EDNS(0) constants and the three ResourceHeader methods of
// dns/dnsmessage/message.go (SetEDNS0, DNSSECAllowed, ExtendedRCode) as
// translated Lean definitions over Nat (fields h.Type, h.Class, h.TTL).
//
// SetEDNS0 is outside the plain translator fragment in three places, which are
// normalised on the in-memory AST first (anything else fails loudly):
//   * `h.Name = Name{...}`  — the root-name assignment is dropped (not part of C38);
//   * `h.TTL |= c`          — rewritten to `h.TTL = h.TTL | c`;
//   * `return nil` / result `error` — the function always returns nil; rewritten to a bare
//     return of the receiver fields.

import (
	"fmt"
	"go/ast"
	"go/token"
	"path/filepath"
	"strings"
)

func init() {
	register("c38", func(repo string, args []string) (string, error) {
		p, err := LoadPkg(filepath.Join(repo, "dns/dnsmessage"), false)
		if err != nil {
			return "", err
		}
		var b strings.Builder
		b.WriteString(Header("EDNS(0) header methods translated from Go.", "dns/dnsmessage/message.go"))
		b.WriteString("namespace NetVerif.Gen.C38\n\n")
		for _, c := range []string{"edns0Version", "edns0DNSSECOK", "ednsVersionMask", "edns0DNSSECOKMask", "TypeOPT"} {
			v, err := p.ConstInt(c)
			if err != nil {
				return "", err
			}
			b.WriteString("def " + lowerFirst(c) + " : Nat := " + v + "\n")
		}
		b.WriteString("\n")

		fd, err := p.Func("ResourceHeader.SetEDNS0")
		if err != nil {
			return "", err
		}
		if err := c38Normalise(p, fd); err != nil {
			return "", err
		}
		fields := []string{"Type", "Class", "TTL"}
		s, err := TranslateFunc(p, "ResourceHeader.SetEDNS0", TransOpts{LeanName: "setEDNS0", Num: "Nat",
			Fields: fields, ReturnFields: true})
		if err != nil {
			return "", err
		}
		b.WriteString(s + "\n")
		s, err = TranslateFunc(p, "ResourceHeader.DNSSECAllowed", TransOpts{LeanName: "dnssecAllowed", Num: "Nat",
			Fields: []string{"TTL"}})
		if err != nil {
			return "", err
		}
		b.WriteString(s + "\n")
		s, err = TranslateFunc(p, "ResourceHeader.ExtendedRCode", TransOpts{LeanName: "extendedRCode", Num: "Nat",
			Fields: []string{"TTL"}})
		if err != nil {
			return "", err
		}
		b.WriteString(s + "\n")
		b.WriteString("end NetVerif.Gen.C38\n")
		return b.String(), nil
	})
}

func c38Normalise(p *Pkg, fd *ast.FuncDecl) error {
	pos := func(n ast.Node) string { return p.Fset.Position(n.Pos()).String() }
	recv := fd.Recv.List[0].Names[0].Name
	isField := func(e ast.Expr, f string) bool {
		s, ok := e.(*ast.SelectorExpr)
		if !ok {
			return false
		}
		id, ok := s.X.(*ast.Ident)
		return ok && id.Name == recv && s.Sel.Name == f
	}
	if fd.Type.Results == nil || len(fd.Type.Results.List) != 1 || exprString(fd.Type.Results.List[0].Type) != "error" {
		return fmt.Errorf("%s: SetEDNS0 result is no longer a single error", pos(fd))
	}
	var fix func(list []ast.Stmt, top bool) ([]ast.Stmt, error)
	droppedName := false
	fix = func(list []ast.Stmt, top bool) ([]ast.Stmt, error) {
		var out []ast.Stmt
		for _, st := range list {
			switch x := st.(type) {
			case *ast.AssignStmt:
				if len(x.Lhs) == 1 && isField(x.Lhs[0], "Name") && x.Tok == token.ASSIGN {
					if _, ok := x.Rhs[0].(*ast.CompositeLit); !ok {
						return nil, fmt.Errorf("%s: h.Name is not assigned a composite literal", pos(x))
					}
					droppedName = true
					continue
				}
				if x.Tok == token.OR_ASSIGN && len(x.Lhs) == 1 {
					x = &ast.AssignStmt{Lhs: x.Lhs, TokPos: x.TokPos, Tok: token.ASSIGN,
						Rhs: []ast.Expr{&ast.BinaryExpr{X: x.Lhs[0], OpPos: x.TokPos, Op: token.OR, Y: x.Rhs[0]}}}
				}
				out = append(out, x)
			case *ast.IfStmt:
				if x.Else != nil || x.Init != nil {
					return nil, fmt.Errorf("%s: unexpected if shape in SetEDNS0", pos(x))
				}
				body, err := fix(x.Body.List, false)
				if err != nil {
					return nil, err
				}
				out = append(out, &ast.IfStmt{If: x.If, Cond: x.Cond, Body: &ast.BlockStmt{Lbrace: x.Body.Lbrace, List: body}})
			case *ast.ReturnStmt:
				if len(x.Results) != 1 || exprString(x.Results[0]) != "nil" {
					return nil, fmt.Errorf("%s: SetEDNS0 returns something other than nil", pos(x))
				}
				out = append(out, &ast.ReturnStmt{Return: x.Return})
			default:
				return nil, fmt.Errorf("%s: unexpected statement %T in SetEDNS0", pos(st), st)
			}
		}
		return out, nil
	}
	body, err := fix(fd.Body.List, true)
	if err != nil {
		return err
	}
	if !droppedName {
		return fmt.Errorf("%s: SetEDNS0 no longer assigns h.Name", pos(fd))
	}
	fd.Body.List = body
	fd.Type.Results = nil
	return nil
}
