package main

// c60ctl: linux/amd64 control-message layouts — cmsghdr size, socket-option names of the ctlOpts tables,
// struct sizes and field offsets of the zsys_linux_amd64.go files.

import (
	"fmt"
	"go/ast"
	"go/constant"
	"go/parser"
	"go/token"
	"os"
	"path/filepath"
	"regexp"
	"strings"
)

func c60OneFile(path string) (*Pkg, error) {
	p := &Pkg{Fset: token.NewFileSet(), Files: map[string]*ast.File{}, Dir: filepath.Dir(path),
		consts: map[string]constDecl{}}
	p.cache = map[string]constant.Value{}
	f, err := parser.ParseFile(p.Fset, path, nil, 0)
	if err != nil {
		return nil, err
	}
	p.Files[filepath.Base(path)] = f
	for _, d := range f.Decls {
		gd, ok := d.(*ast.GenDecl)
		if !ok || gd.Tok != token.CONST {
			continue
		}
		for i, s := range gd.Specs {
			vs := s.(*ast.ValueSpec)
			for j, n := range vs.Names {
				if j < len(vs.Values) {
					p.consts[n.Name] = constDecl{expr: vs.Values[j], iota: int64(i)}
				}
			}
		}
	}
	return p, nil
}

var c60BasicSize = map[string]int{"uint8": 1, "int8": 1, "byte": 1, "uint16": 2, "int16": 2, "uint32": 4, "int32": 4, "uint64": 8, "int64": 8}

// c60Layout returns (size, align, flattened fields name->offset,size) of a struct type of the file.
func c60Layout(f *ast.File, name string) (int, int, [][3]string, error) {
	var st *ast.StructType
	for _, d := range f.Decls {
		gd, ok := d.(*ast.GenDecl)
		if !ok || gd.Tok != token.TYPE {
			continue
		}
		for _, s := range gd.Specs {
			ts := s.(*ast.TypeSpec)
			if ts.Name.Name == name {
				st, _ = ts.Type.(*ast.StructType)
			}
		}
	}
	if st == nil {
		return 0, 0, nil, fmt.Errorf("struct %s not found", name)
	}
	off, maxAlign := 0, 1
	var out [][3]string
	var sizeOf func(e ast.Expr) (int, int, [][3]string, error)
	sizeOf = func(e ast.Expr) (int, int, [][3]string, error) {
		switch t := e.(type) {
		case *ast.Ident:
			if s, ok := c60BasicSize[t.Name]; ok {
				return s, s, nil, nil
			}
			return c60Layout(f, t.Name)
		case *ast.ArrayType:
			bl, ok := t.Len.(*ast.BasicLit)
			if !ok {
				return 0, 0, nil, fmt.Errorf("array length not literal")
			}
			var n int
			fmt.Sscan(bl.Value, &n)
			s, a, _, err := sizeOf(t.Elt)
			return s * n, a, nil, err
		}
		return 0, 0, nil, fmt.Errorf("unsupported field type %T", e)
	}
	for _, fl := range st.Fields.List {
		s, a, sub, err := sizeOf(fl.Type)
		if err != nil {
			return 0, 0, nil, err
		}
		for _, n := range fl.Names {
			off = (off + a - 1) / a * a
			out = append(out, [3]string{n.Name, fmt.Sprint(off), fmt.Sprint(s)})
			for _, x := range sub {
				var so int
				fmt.Sscan(x[1], &so)
				out = append(out, [3]string{n.Name + "_" + x[0], fmt.Sprint(off + so), x[2]})
			}
			off += s
			if a > maxAlign {
				maxAlign = a
			}
		}
	}
	off = (off + maxAlign - 1) / maxAlign * maxAlign
	return off, maxAlign, out, nil
}

func init() {
	register("c60ctl", func(repo string, args []string) (string, error) {
		gomod, err := os.ReadFile(filepath.Join(repo, "go.mod"))
		if err != nil {
			return "", err
		}
		m := regexp.MustCompile(`golang.org/x/sys (v[0-9A-Za-z.\-+]+)`).FindSubmatch(gomod)
		if m == nil {
			return "", fmt.Errorf("golang.org/x/sys version not found in go.mod")
		}
		cache := os.Getenv("GOMODCACHE")
		if cache == "" {
			cache = "/root/go/pkg/mod"
		}
		unixDir := filepath.Join(cache, "golang.org/x/sys@"+string(m[1]), "unix")
		zerr, err := c60OneFile(filepath.Join(unixDir, "zerrors_linux.go"))
		if err != nil {
			return "", err
		}
		ztyp, err := c60OneFile(filepath.Join(unixDir, "ztypes_linux_amd64.go"))
		if err != nil {
			return "", err
		}
		var b strings.Builder
		b.WriteString(Header("linux/amd64 control-message layouts.", "golang.org/x/sys/unix/zerrors_linux.go", "ztypes_linux_amd64.go",
			"ipv4/sys_linux.go", "ipv4/zsys_linux_amd64.go", "ipv6/sys_linux.go", "ipv6/zsys_linux_amd64.go", "internal/iana/const.go"))
		b.WriteString("namespace NetVerif.Gen.C60Ctl\n\n")
		v, err := ztyp.ConstInt("SizeofCmsghdr")
		if err != nil {
			return "", err
		}
		b.WriteString("def sizeofCmsghdr : Nat := " + v + "\n")
		ia, err := LoadPkg(filepath.Join(repo, "internal/iana"), false)
		if err != nil {
			return "", err
		}
		for _, n := range []string{"ProtocolIP", "ProtocolIPv6"} {
			v, err := ia.ConstInt(n)
			if err != nil {
				return "", err
			}
			b.WriteString("def iana_" + n + " : Nat := " + v + "\n")
		}
		for _, fam := range []struct {
			dir     string
			structs []string
		}{{"ipv4", []string{"inetPktinfo"}}, {"ipv6", []string{"inet6Pktinfo", "sockaddrInet6", "ipv6Mtuinfo"}}} {
			zs, err := c60OneFile(filepath.Join(repo, fam.dir, "zsys_linux_amd64.go"))
			if err != nil {
				return "", err
			}
			zf := zs.Files["zsys_linux_amd64.go"]
			for _, st := range fam.structs {
				size, _, fields, err := c60Layout(zf, st)
				if err != nil {
					return "", err
				}
				cname := map[string]string{"ipv6Mtuinfo": "sizeofIPv6Mtuinfo"}[st]
				if cname == "" {
					cname = "sizeof" + strings.ToUpper(st[:1]) + st[1:]
				}
				decl, err := zs.ConstInt(cname)
				if err != nil {
					return "", err
				}
				b.WriteString(fmt.Sprintf("def sizeof_%s : Nat := %s\ndef layoutSize_%s : Nat := %d\n", st, decl, st, size))
				for _, f := range fields {
					b.WriteString(fmt.Sprintf("def %s_%s : Nat × Nat := (%s, %s)\n", st, f[0], f[1], f[2]))
				}
			}
			// ctlOpts table of sys_linux.go
			sys, err := c60OneFile(filepath.Join(repo, fam.dir, "sys_linux.go"))
			if err != nil {
				return "", err
			}
			var ents []string
			ast.Inspect(sys.Files["sys_linux.go"], func(n ast.Node) bool {
				vs, ok := n.(*ast.ValueSpec)
				if !ok || len(vs.Names) == 0 || vs.Names[0].Name != "ctlOpts" || len(vs.Values) == 0 {
					return true
				}
				cl, ok := vs.Values[0].(*ast.CompositeLit)
				if !ok {
					return true
				}
				for _, el := range cl.Elts {
					kv, ok := el.(*ast.KeyValueExpr)
					if !ok {
						err = fmt.Errorf("ctlOpts: unexpected element")
						return false
					}
					key := kv.Key.(*ast.Ident).Name
					val := kv.Value.(*ast.CompositeLit)
					sel, ok := val.Elts[0].(*ast.SelectorExpr)
					if !ok {
						err = fmt.Errorf("ctlOpts: name is not unix.X")
						return false
					}
					nv, e := zerr.ConstInt(sel.Sel.Name)
					if e != nil {
						err = e
						return false
					}
					var lv string
					if id, ok := val.Elts[1].(*ast.Ident); ok {
						lv, e = zs.ConstInt(id.Name)
					} else {
						lv, e = zs.EvalInt(val.Elts[1])
					}
					if e != nil {
						err = e
						return false
					}
					ents = append(ents, fmt.Sprintf("(%q, %s, %s)", key, nv, lv))
				}
				return false
			})
			if err != nil {
				return "", err
			}
			if len(ents) == 0 {
				return "", fmt.Errorf("%s: ctlOpts table not found", fam.dir)
			}
			b.WriteString("def ctlOpts_" + fam.dir + " : List (String × Nat × Nat) := [" + strings.Join(ents, ", ") + "]\n")
		}
		b.WriteString("\nend NetVerif.Gen.C60Ctl\n")
		return b.String(), nil
	})
}
