package main

// c61: configuration tables of internal/timeseries (bucket counts, resolution
// lists in nanoseconds) and trace/histogram.go's bucketCount.

import (
	"fmt"
	"go/ast"
	"go/token"
	"math/big"
	"path/filepath"
	"strings"
)

var c61TimeUnits = map[string]int64{
	"Nanosecond": 1, "Microsecond": 1e3, "Millisecond": 1e6, "Second": 1e9,
	"Minute": 60e9, "Hour": 3600e9,
}

// c61Dur evaluates a constant duration expression built from integer
// literals, package constants, * and + and time.<Unit>.
func c61Dur(p *Pkg, e ast.Expr) (*big.Int, error) {
	switch x := e.(type) {
	case *ast.ParenExpr:
		return c61Dur(p, x.X)
	case *ast.SelectorExpr:
		if id, ok := x.X.(*ast.Ident); ok && id.Name == "time" {
			if u, ok := c61TimeUnits[x.Sel.Name]; ok {
				return big.NewInt(u), nil
			}
		}
		return nil, fmt.Errorf("unsupported selector in duration: %s", exprString(e))
	case *ast.BinaryExpr:
		a, err := c61Dur(p, x.X)
		if err != nil {
			return nil, err
		}
		b, err := c61Dur(p, x.Y)
		if err != nil {
			return nil, err
		}
		switch x.Op {
		case token.MUL:
			return new(big.Int).Mul(a, b), nil
		case token.ADD:
			return new(big.Int).Add(a, b), nil
		}
		return nil, fmt.Errorf("unsupported operator %s in duration", x.Op)
	default:
		s, err := p.EvalInt(e)
		if err != nil {
			return nil, err
		}
		v, ok := new(big.Int).SetString(s, 10)
		if !ok {
			return nil, fmt.Errorf("bad integer %s", s)
		}
		return v, nil
	}
}

func c61DurList(p *Pkg, name string) (string, error) {
	e, err := p.Var(name)
	if err != nil {
		return "", err
	}
	cl, ok := e.(*ast.CompositeLit)
	if !ok {
		return "", fmt.Errorf("%s is not a composite literal", name)
	}
	var parts []string
	for _, el := range cl.Elts {
		v, err := c61Dur(p, el)
		if err != nil {
			return "", fmt.Errorf("%s: %w", name, err)
		}
		parts = append(parts, v.String())
	}
	return "[" + strings.Join(parts, ", ") + "]", nil
}

func init() {
	register("c61", func(repo string, args []string) (string, error) {
		p, err := LoadPkg(filepath.Join(repo, "internal/timeseries"), false)
		if err != nil {
			return "", err
		}
		tr, err := LoadPkg(filepath.Join(repo, "trace"), false)
		if err != nil {
			return "", err
		}
		var b strings.Builder
		b.WriteString(Header("Time-series configuration tables.", "internal/timeseries/timeseries.go", "trace/histogram.go"))
		b.WriteString("namespace NetVerif.Gen.C61\n\n")
		for _, c := range []string{"timeSeriesNumBuckets", "minuteHourSeriesNumBuckets"} {
			v, err := p.ConstInt(c)
			if err != nil {
				return "", err
			}
			b.WriteString("def " + c + " : Nat := " + v + "\n")
		}
		for _, v := range []string{"timeSeriesResolutions", "minuteHourSeriesResolutions"} {
			l, err := c61DurList(p, v)
			if err != nil {
				return "", err
			}
			b.WriteString("def " + v + " : List Int := " + l + "\n")
		}
		v, err := tr.ConstInt("bucketCount")
		if err != nil {
			return "", err
		}
		b.WriteString("def bucketCount : Nat := " + v + "\n")
		b.WriteString("\nend NetVerif.Gen.C61\n")
		return b.String(), nil
	})
}
