package main

// c17: the comparison sites of the HTTP/2 client's stream-slot accounting and GOAWAY
// classification (http2/transport.go, transport_common.go), rendered as Lean definitions over
// plain naturals. Each site is located SYNTACTICALLY (function name + statement shape); any
// other shape is an error, so a restructured function stops the check instead of being guessed.
//
//	constants            initialMaxConcurrentStreams, defaultMaxConcurrentStreams, ErrCodeRefusedStream
//	count                currentRequestCountLocked: the returned sum
//	slotFree             awaitOpenSlotForStreamLocked: condition of the `if … { return nil }`
//	poolOkay             idleStateLocked: right-hand side of `maxConcurrentOkay = …` in the non-strict branch
//	goAwayKeeps          setGoAway: condition of the `if … { continue }` in the stream loop
//	goAwayFailsFirst     setGoAway: condition of the following if/else
//	retrySentinels       canRetryError: the sentinel errors compared with err in the first if
//	retryStreamCode      canRetryError: the StreamError code that is retryable

import (
	"fmt"
	"go/ast"
	"go/token"
	"path/filepath"
	"strings"
)

type c17tr struct {
	idents map[string]string // exprString -> Lean
	p      *Pkg
}

func (t *c17tr) expr(e ast.Expr) (string, error) {
	switch x := e.(type) {
	case *ast.ParenExpr:
		return t.expr(x.X)
	case *ast.BasicLit:
		if x.Kind == token.INT {
			return x.Value, nil
		}
	case *ast.Ident, *ast.SelectorExpr:
		k := exprString(e)
		if v, ok := t.idents[k]; ok {
			return v, nil
		}
		if id, ok := e.(*ast.Ident); ok {
			if v, err := t.p.ConstInt(id.Name); err == nil {
				return v, nil
			}
		}
		return "", fmt.Errorf("c17: unknown operand %s", k)
	case *ast.CallExpr:
		fn := exprString(x.Fun)
		switch {
		case (fn == "int" || fn == "int64") && len(x.Args) == 1:
			return t.expr(x.Args[0])
		case fn == "len" && len(x.Args) == 1:
			if v, ok := t.idents["len("+exprString(x.Args[0])+")"]; ok {
				return v, nil
			}
		case len(x.Args) == 0:
			if v, ok := t.idents[fn+"()"]; ok {
				return v, nil
			}
		}
		return "", fmt.Errorf("c17: unsupported call %s", fn)
	case *ast.BinaryExpr:
		a, err := t.expr(x.X)
		if err != nil {
			return "", err
		}
		b, err := t.expr(x.Y)
		if err != nil {
			return "", err
		}
		switch x.Op {
		case token.ADD:
			return "(" + a + " + " + b + ")", nil
		case token.LSS:
			return "decide (" + a + " < " + b + ")", nil
		case token.LEQ:
			return "decide (" + a + " ≤ " + b + ")", nil
		case token.GTR:
			return "decide (" + a + " > " + b + ")", nil
		case token.GEQ:
			return "decide (" + a + " ≥ " + b + ")", nil
		case token.EQL:
			return "decide (" + a + " = " + b + ")", nil
		case token.NEQ:
			return "decide (" + a + " ≠ " + b + ")", nil
		case token.LAND:
			return "(" + a + " && " + b + ")", nil
		case token.LOR:
			return "(" + a + " || " + b + ")", nil
		}
		return "", fmt.Errorf("c17: unsupported operator %s", x.Op)
	}
	return "", fmt.Errorf("c17: unsupported expression %T", e)
}

func c17returnsNil(b *ast.BlockStmt) bool {
	if len(b.List) != 1 {
		return false
	}
	r, ok := b.List[0].(*ast.ReturnStmt)
	return ok && len(r.Results) == 1 && exprString(r.Results[0]) == "nil"
}

func c17isContinue(b *ast.BlockStmt) bool {
	if len(b.List) != 1 {
		return false
	}
	r, ok := b.List[0].(*ast.BranchStmt)
	return ok && r.Tok == token.CONTINUE
}

func init() {
	register("c17", func(repo string, args []string) (string, error) {
		p, err := LoadPkg(filepath.Join(repo, "http2"), false)
		if err != nil {
			return "", err
		}
		var b strings.Builder
		b.WriteString(Header("HTTP/2 client stream-slot and GOAWAY comparison sites.", "http2/transport.go", "http2/transport_common.go"))
		b.WriteString("namespace NetVerif.Gen.C17\n\n")
		for _, c := range []string{"initialMaxConcurrentStreams", "defaultMaxConcurrentStreams"} {
			v, err := p.ConstInt(c)
			if err != nil {
				return "", err
			}
			b.WriteString("def " + c + " : Nat := " + v + "\n")
		}

		// currentRequestCountLocked
		fd, err := p.Func("ClientConn.currentRequestCountLocked")
		if err != nil {
			return "", err
		}
		if len(fd.Body.List) != 1 {
			return "", fmt.Errorf("c17: currentRequestCountLocked: expected a single return")
		}
		ret, ok := fd.Body.List[0].(*ast.ReturnStmt)
		if !ok || len(ret.Results) != 1 {
			return "", fmt.Errorf("c17: currentRequestCountLocked: expected a single return")
		}
		t := &c17tr{p: p, idents: map[string]string{"len(cc.streams)": "streams", "cc.streamsReserved": "reserved", "cc.pendingResets": "pendingResets"}}
		s, err := t.expr(ret.Results[0])
		if err != nil {
			return "", err
		}
		b.WriteString("\n/-- `currentRequestCountLocked` -/\ndef count (streams reserved pendingResets : Nat) : Nat := " + s + "\n")

		// awaitOpenSlotForStreamLocked
		fd, err = p.Func("ClientConn.awaitOpenSlotForStreamLocked")
		if err != nil {
			return "", err
		}
		t = &c17tr{p: p, idents: map[string]string{"cc.currentRequestCountLocked()": "(count streams reserved pendingResets)", "cc.maxConcurrentStreams": "maxConcurrentStreams",
			"len(cc.streams)": "streams", "cc.streamsReserved": "reserved", "cc.pendingResets": "pendingResets"}}
		var found []string
		ast.Inspect(fd.Body, func(n ast.Node) bool {
			if is, ok := n.(*ast.IfStmt); ok && is.Init == nil && is.Else == nil && c17returnsNil(is.Body) {
				s, e := t.expr(is.Cond)
				if e != nil {
					err = e
				}
				found = append(found, s)
			}
			return true
		})
		if err != nil {
			return "", err
		}
		if len(found) != 1 {
			return "", fmt.Errorf("c17: awaitOpenSlotForStreamLocked: %d `return nil` sites, want 1", len(found))
		}
		b.WriteString("\n/-- `awaitOpenSlotForStreamLocked`: the condition under which the request proceeds -/\ndef slotFree (streams reserved pendingResets maxConcurrentStreams : Nat) : Bool := " + found[0] + "\n")

		// idleStateLocked
		fd, err = p.Func("ClientConn.idleStateLocked")
		if err != nil {
			return "", err
		}
		found = nil
		ast.Inspect(fd.Body, func(n ast.Node) bool {
			if as, ok := n.(*ast.AssignStmt); ok && len(as.Lhs) == 1 && len(as.Rhs) == 1 && exprString(as.Lhs[0]) == "maxConcurrentOkay" {
				if exprString(as.Rhs[0]) == "true" {
					return true // strict branch
				}
				s, e := t.expr(as.Rhs[0])
				if e != nil {
					err = e
				}
				found = append(found, s)
			}
			return true
		})
		if err != nil {
			return "", err
		}
		if len(found) != 1 {
			return "", fmt.Errorf("c17: idleStateLocked: %d non-strict maxConcurrentOkay assignments, want 1", len(found))
		}
		b.WriteString("\n/-- `idleStateLocked`: maxConcurrentOkay without StrictMaxConcurrentStreams -/\ndef poolOkay (streams reserved pendingResets maxConcurrentStreams : Nat) : Bool := " + found[0] + "\n")

		// setGoAway
		fd, err = p.Func("ClientConn.setGoAway")
		if err != nil {
			return "", err
		}
		t = &c17tr{p: p, idents: map[string]string{"streamID": "streamID", "last": "last", "cc.goAway.ErrCode": "code"}}
		var keeps, fails []string
		ast.Inspect(fd.Body, func(n ast.Node) bool {
			rs, ok := n.(*ast.RangeStmt)
			if !ok {
				return true
			}
			for _, st := range rs.Body.List {
				is, ok := st.(*ast.IfStmt)
				if !ok {
					err = fmt.Errorf("c17: setGoAway: unexpected statement in the stream loop")
					continue
				}
				s, e := t.expr(is.Cond)
				if e != nil {
					err = e
				}
				if is.Else == nil && len(is.Body.List) > 0 && c17isContinue(&ast.BlockStmt{List: is.Body.List[len(is.Body.List)-1:]}) {
					keeps = append(keeps, s)
				} else if is.Else != nil {
					fails = append(fails, s)
				} else {
					err = fmt.Errorf("c17: setGoAway: unexpected if shape in the stream loop")
				}
			}
			return false
		})
		if err != nil {
			return "", err
		}
		if len(keeps) != 1 || len(fails) != 1 {
			return "", fmt.Errorf("c17: setGoAway: %d continue sites, %d if/else sites, want 1 and 1", len(keeps), len(fails))
		}
		b.WriteString("\n/-- `setGoAway`: the stream is left alone -/\ndef goAwayKeeps (streamID last : Nat) : Bool := " + keeps[0] + "\n")
		b.WriteString("\n/-- `setGoAway`: the stream is failed with a non-retryable error -/\ndef goAwayFailsFirst (streamID code : Nat) : Bool := " + fails[0] + "\n")

		// canRetryError
		fd, err = p.Func("canRetryError")
		if err != nil {
			return "", err
		}
		var sentinels []string
		code := ""
		for _, st := range fd.Body.List {
			is, ok := st.(*ast.IfStmt)
			if !ok {
				continue
			}
			if is.Init == nil {
				var walk func(e ast.Expr) error
				walk = func(e ast.Expr) error {
					be, ok := e.(*ast.BinaryExpr)
					if !ok {
						return fmt.Errorf("c17: canRetryError: unexpected condition")
					}
					if be.Op == token.LOR {
						if err := walk(be.X); err != nil {
							return err
						}
						return walk(be.Y)
					}
					if be.Op == token.EQL && exprString(be.X) == "err" {
						sentinels = append(sentinels, exprString(be.Y))
						return nil
					}
					return fmt.Errorf("c17: canRetryError: unexpected comparison")
				}
				if err := walk(is.Cond); err != nil {
					return "", err
				}
				if !(len(is.Body.List) == 1 && func() bool {
					r, ok := is.Body.List[0].(*ast.ReturnStmt)
					return ok && len(r.Results) == 1 && exprString(r.Results[0]) == "true"
				}()) {
					return "", fmt.Errorf("c17: canRetryError: sentinel branch does not return true")
				}
			} else {
				// if se, ok := err.(StreamError); ok { return se.Code == X }
				if len(is.Body.List) != 1 {
					return "", fmt.Errorf("c17: canRetryError: unexpected StreamError branch")
				}
				r, ok := is.Body.List[0].(*ast.ReturnStmt)
				if !ok || len(r.Results) != 1 {
					return "", fmt.Errorf("c17: canRetryError: unexpected StreamError branch")
				}
				be, ok := r.Results[0].(*ast.BinaryExpr)
				if !ok || be.Op != token.EQL || exprString(be.X) != "se.Code" {
					return "", fmt.Errorf("c17: canRetryError: unexpected StreamError comparison")
				}
				code, err = p.ConstInt(exprString(be.Y))
				if err != nil {
					return "", err
				}
			}
		}
		last, ok := fd.Body.List[len(fd.Body.List)-1].(*ast.ReturnStmt)
		if !ok || len(last.Results) != 1 || exprString(last.Results[0]) != "false" {
			return "", fmt.Errorf("c17: canRetryError: does not end in `return false`")
		}
		if code == "" {
			return "", fmt.Errorf("c17: canRetryError: StreamError branch not found")
		}
		b.WriteString("\n/-- `canRetryError`: sentinel errors that are retryable -/\ndef retrySentinels : List String := [")
		for i, s := range sentinels {
			if i > 0 {
				b.WriteString(", ")
			}
			b.WriteString("\"" + s + "\"")
		}
		b.WriteString("]\n\n/-- `canRetryError`: the retryable RST_STREAM code -/\ndef retryStreamCode : Nat := " + code + "\n")
		b.WriteString("\nend NetVerif.Gen.C17\n")
		return b.String(), nil
	})
}
