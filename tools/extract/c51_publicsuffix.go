package main

// c51: the bit layout of publicsuffix/table.go (nodes / children entries),
// the node type codes and numTLD.

import (
	"path/filepath"
	"strings"
)

func init() {
	register("c51", func(repo string, args []string) (string, error) {
		p, err := LoadPkg(filepath.Join(repo, "publicsuffix"), false)
		if err != nil {
			return "", err
		}
		var b strings.Builder
		b.WriteString(Header("Packed-table layout constants of the public suffix list.", "publicsuffix/table.go"))
		b.WriteString("namespace NetVerif.Gen.C51\n\n")
		for _, c := range []string{"nodesBits", "nodesBitsChildren", "nodesBitsICANN", "nodesBitsTextOffset", "nodesBitsTextLength",
			"childrenBitsWildcard", "childrenBitsNodeType", "childrenBitsHi", "childrenBitsLo",
			"nodeTypeNormal", "nodeTypeException", "nodeTypeParentOnly", "numTLD"} {
			v, err := p.ConstInt(c)
			if err != nil {
				return "", err
			}
			b.WriteString("def " + c + " : Nat := " + v + "\n")
		}
		b.WriteString("\nend NetVerif.Gen.C51\n")
		return b.String(), nil
	})
}
